package main

// Family "jwt" (property C05): the real JWT authenticator (authenticators.CreatePrototype -> WithConfig -> Execute on
// requestcontext.New(real http.Request)) against a loopback JWKS / OAuth2 metadata server.
//
// Per case the harness
//   1. materialises the described key set (go-jose JSONWebKey marshalling; certificates from a private CA),
//   2. mints the described token at the current second t0 (own reference signer over the Go standard library, or the
//      go-jose signer), applies the described mutations to the compact serialisation,
//   3. runs the authenticator and reports accept (subject id + attributes) / reject / config,
//   4. computes - independently of heimdall and go-jose, with encoding/base64, encoding/json and the crypto packages
//      of the standard library only - the abstract view of the final token string ("abs"): header alg / kid / crit,
//      the payload JSON, and for every key material of the pool whether the signature over the canonical signing
//      input verifies under the header algorithm.
// The Lean model is run on the case plus "abs"; what the real code answered is compared with what the model predicts.
// The code under test reads the wall clock itself, so a case is repeated until it ran inside one clock second
// (t0 = second before = second after); claims denote times relative to t0.

import (
	"bytes"
	"crypto"
	"crypto/ecdsa"
	"crypto/ed25519"
	"crypto/elliptic"
	"crypto/hmac"
	"crypto/rand"
	"crypto/rsa"
	"crypto/sha256"
	"crypto/sha512"
	"crypto/x509"
	"crypto/x509/pkix"
	"encoding/base64"
	"encoding/hex"
	"encoding/json"
	"encoding/pem"
	"errors"
	"fmt"
	"hash"
	"io"
	"math/big"
	"net/http"
	"net/http/httptest"
	"os"
	"path/filepath"
	"runtime"
	"sort"
	"strings"
	"sync"
	"sync/atomic"
	"time"

	"github.com/go-jose/go-jose/v4"

	"github.com/dadrus/heimdall/internal/cache"
	"github.com/dadrus/heimdall/internal/cache/memory"
	"github.com/dadrus/heimdall/internal/handler/requestcontext"
	"github.com/dadrus/heimdall/internal/heimdall"
	"github.com/dadrus/heimdall/internal/rules/mechanisms/authenticators"
)

func init() { families["jwt"] = runJwt }

// ---------------------------------------------------------------------------------------------------------
// key pool, CA, loopback server

type c05Material struct {
	kind string // rsa | rsa3072 | ec256 | ec384 | ec521 | ed | oct
	once  sync.Once
	ready atomic.Bool
	priv  any
	pub   any
	err   error
}

// key material is generated when it is first used (RSA keys are expensive)
func (m *c05Material) gen() {
	m.once.Do(func() {
		switch m.kind {
		case "rsa", "rsa3072":
			bits := 2048
			if m.kind == "rsa3072" {
				bits = 3072
			}

			k, err := rsa.GenerateKey(rand.Reader, bits)
			if err != nil {
				m.err = err

				return
			}

			m.priv, m.pub = k, &k.PublicKey
		case "ec256", "ec384", "ec521":
			curve := map[string]elliptic.Curve{"ec256": elliptic.P256(), "ec384": elliptic.P384(), "ec521": elliptic.P521()}[m.kind]

			k, err := ecdsa.GenerateKey(curve, rand.Reader)
			if err != nil {
				m.err = err

				return
			}

			m.priv, m.pub = k, &k.PublicKey
		case "ed":
			pub, priv, err := ed25519.GenerateKey(rand.Reader)
			m.priv, m.pub, m.err = priv, pub, err
		case "oct32", "oct64":
			n := 32
			if m.kind == "oct64" {
				n = 64
			}

			secret := make([]byte, n)
			_, _ = rand.Read(secret)
			m.priv, m.pub = secret, secret
		}
	})
}

func (m *c05Material) private() any { m.gen(); m.ready.Store(true); return m.priv }
func (m *c05Material) public() any  { m.gen(); m.ready.Store(true); return m.pub }

// what the loopback server answers for one kind of request
type c05Answer struct {
	status int
	body   []byte
}

type c05World struct {
	mats      []*c05Material
	caKey     *ecdsa.PrivateKey
	caCert    *x509.Certificate
	interKey  *ecdsa.PrivateKey
	interCert *x509.Certificate
	otherKey  *ecdsa.PrivateKey
	otherCert *x509.Certificate
	trustFile string
	certs     map[string]*x509.Certificate
	srv       *httptest.Server

	mu        sync.Mutex
	jwks      c05Answer
	jwksByIss map[string]c05Answer
	meta      c05Answer
	jwksCalls int
	metaCalls int
}

var (
	c05Once sync.Once
	c05W    *c05World
	c05Err  error
)

func c05Setup() {
	// one P: what a sync.Pool hands from one request to the next is then deterministic
	runtime.GOMAXPROCS(1)

	w := &c05World{certs: map[string]*x509.Certificate{}}

	for _, kind := range []string{"rsa", "rsa", "ec256", "ec256", "ec384", "ec521", "ed", "ed", "oct32", "oct64", "rsa3072"} {
		w.mats = append(w.mats, &c05Material{kind: kind})
	}

	var err error
	if w.caKey, w.caCert, err = c05NewCA("verif C05 CA", nil, nil); err != nil {
		c05Err = err

		return
	}

	if w.interKey, w.interCert, err = c05NewCA("verif C05 intermediate CA", w.caCert, w.caKey); err != nil {
		c05Err = err

		return
	}

	if w.otherKey, w.otherCert, err = c05NewCA("verif C05 foreign CA", nil, nil); err != nil {
		c05Err = err

		return
	}

	dir, err := os.MkdirTemp("", "c05-")
	if err != nil {
		c05Err = err

		return
	}

	w.trustFile = filepath.Join(dir, "trust.pem")
	if err = os.WriteFile(w.trustFile,
		pem.EncodeToMemory(&pem.Block{Type: "CERTIFICATE", Bytes: w.caCert.Raw}), 0o600); err != nil {
		c05Err = err

		return
	}

	w.srv = httptest.NewServer(http.HandlerFunc(w.serve))
	c05W = w
}

func c05NewCA(cn string, parent *x509.Certificate, parentKey *ecdsa.PrivateKey) (*ecdsa.PrivateKey, *x509.Certificate, error) {
	key, err := ecdsa.GenerateKey(elliptic.P256(), rand.Reader)
	if err != nil {
		return nil, nil, err
	}

	tpl := &x509.Certificate{
		SerialNumber:          big.NewInt(time.Now().UnixNano()),
		Subject:               pkix.Name{CommonName: cn},
		NotBefore:             time.Now().Add(-24 * time.Hour),
		NotAfter:              time.Now().Add(240 * time.Hour),
		IsCA:                  true,
		BasicConstraintsValid: true,
		KeyUsage:              x509.KeyUsageCertSign | x509.KeyUsageCRLSign,
	}

	signer, signerKey := tpl, key
	if parent != nil {
		signer, signerKey = parent, parentKey
	}

	der, err := x509.CreateCertificate(rand.Reader, tpl, signer, &key.PublicKey, signerKey)
	if err != nil {
		return nil, nil, err
	}

	cert, err := x509.ParseCertificate(der)

	return key, cert, err
}

// leaf certificate of one flavour for one key material (cached)
func (w *c05World) cert(mat int, flavour string) (*x509.Certificate, error) {
	id := fmt.Sprintf("%d/%s", mat, flavour)
	if c, ok := w.certs[id]; ok {
		return c, nil
	}

	tpl := &x509.Certificate{
		SerialNumber: big.NewInt(time.Now().UnixNano()),
		Subject:      pkix.Name{CommonName: "verif C05 key " + id},
		NotBefore:    time.Now().Add(-2 * time.Hour),
		NotAfter:     time.Now().Add(48 * time.Hour),
		KeyUsage:     x509.KeyUsageDigitalSignature,
	}
	issuer, issuerKey := w.caCert, w.caKey

	switch flavour {
	case "valid":
	case "expired":
		tpl.NotAfter = time.Now().Add(-1 * time.Hour)
	case "notyet":
		tpl.NotBefore = time.Now().Add(2 * time.Hour)
	case "chain", "chain_missing": // issued by the intermediate CA; the chain is / is not part of the JWK
		issuer, issuerKey = w.interCert, w.interKey
	case "untrusted":
		issuer, issuerKey = w.otherCert, w.otherKey
	case "nousage":
		tpl.KeyUsage = x509.KeyUsageKeyEncipherment
	default:
		return nil, fmt.Errorf("unknown certificate flavour %q", flavour)
	}

	der, err := x509.CreateCertificate(rand.Reader, tpl, issuer, w.mats[mat].public(), issuerKey)
	if err != nil {
		return nil, err
	}

	c, err := x509.ParseCertificate(der)
	if err != nil {
		return nil, err
	}

	w.certs[id] = c

	return c, nil
}

func (w *c05World) serve(rw http.ResponseWriter, req *http.Request) {
	w.mu.Lock()
	defer w.mu.Unlock()

	ans := c05Answer{status: http.StatusNotFound}

	switch {
	case strings.HasPrefix(req.URL.Path, "/jwks"):
		w.jwksCalls++

		if req.URL.Query().Has("iss") { // templated endpoint: one key set per issuer
			if a, ok := w.jwksByIss[req.URL.Query().Get("iss")]; ok {
				ans = a
			}
		} else {
			ans = w.jwks
		}
	case strings.Contains(req.URL.Path, ".well-known/"):
		w.metaCalls++
		ans = w.meta
	}

	rw.Header().Set("Content-Type", "application/json")
	rw.WriteHeader(ans.status)
	_, _ = rw.Write(ans.body)
}

// ---------------------------------------------------------------------------------------------------------
// reference signer / verifier (standard library only)

func c05Hash(alg string) (crypto.Hash, func() hash.Hash) {
	switch {
	case strings.HasSuffix(alg, "256"):
		return crypto.SHA256, sha256.New
	case strings.HasSuffix(alg, "384"):
		return crypto.SHA384, sha512.New384
	case strings.HasSuffix(alg, "512"):
		return crypto.SHA512, sha512.New
	}

	return 0, nil
}

func c05Digest(h func() hash.Hash, input []byte) []byte {
	d := h()
	d.Write(input)

	return d.Sum(nil)
}

func c05CurveSize(alg string) (elliptic.Curve, int) {
	switch alg {
	case "ES256":
		return elliptic.P256(), 32
	case "ES384":
		return elliptic.P384(), 48
	case "ES512":
		return elliptic.P521(), 66
	}

	return nil, 0
}

func c05Sign(alg string, priv any, input []byte) ([]byte, error) {
	ch, hf := c05Hash(alg)

	switch {
	case strings.HasPrefix(alg, "RS") && hf != nil:
		k, ok := priv.(*rsa.PrivateKey)
		if !ok {
			return nil, errors.New("key/alg mismatch")
		}

		return rsa.SignPKCS1v15(rand.Reader, k, ch, c05Digest(hf, input))
	case strings.HasPrefix(alg, "PS") && hf != nil:
		k, ok := priv.(*rsa.PrivateKey)
		if !ok {
			return nil, errors.New("key/alg mismatch")
		}

		return rsa.SignPSS(rand.Reader, k, ch, c05Digest(hf, input),
			&rsa.PSSOptions{SaltLength: rsa.PSSSaltLengthEqualsHash})
	case strings.HasPrefix(alg, "ES") && hf != nil:
		k, ok := priv.(*ecdsa.PrivateKey)
		curve, size := c05CurveSize(alg)

		if !ok || curve == nil || k.Curve != curve {
			return nil, errors.New("key/alg mismatch")
		}

		r, s, err := ecdsa.Sign(rand.Reader, k, c05Digest(hf, input))
		if err != nil {
			return nil, err
		}

		out := make([]byte, 2*size)
		r.FillBytes(out[:size])
		s.FillBytes(out[size:])

		return out, nil
	case alg == "EdDSA":
		k, ok := priv.(ed25519.PrivateKey)
		if !ok {
			return nil, errors.New("key/alg mismatch")
		}

		return ed25519.Sign(k, input), nil
	case strings.HasPrefix(alg, "HS") && hf != nil:
		k, ok := priv.([]byte)
		if !ok {
			return nil, errors.New("key/alg mismatch")
		}

		m := hmac.New(hf, k)
		m.Write(input)

		return m.Sum(nil), nil
	}

	return nil, errors.New("unknown algorithm " + alg)
}

func c05Verify(alg string, pub any, input, sig []byte) bool {
	ch, hf := c05Hash(alg)

	switch {
	case strings.HasPrefix(alg, "RS") && hf != nil:
		k, ok := pub.(*rsa.PublicKey)

		return ok && rsa.VerifyPKCS1v15(k, ch, c05Digest(hf, input), sig) == nil
	case strings.HasPrefix(alg, "PS") && hf != nil:
		k, ok := pub.(*rsa.PublicKey)

		return ok && rsa.VerifyPSS(k, ch, c05Digest(hf, input), sig, nil) == nil
	case strings.HasPrefix(alg, "ES") && hf != nil:
		k, ok := pub.(*ecdsa.PublicKey)
		curve, size := c05CurveSize(alg)

		if !ok || curve == nil || k.Curve != curve || len(sig) != 2*size {
			return false
		}

		r := new(big.Int).SetBytes(sig[:size])
		s := new(big.Int).SetBytes(sig[size:])

		return ecdsa.Verify(k, c05Digest(hf, input), r, s)
	case alg == "EdDSA":
		k, ok := pub.(ed25519.PublicKey)

		return ok && len(k) == ed25519.PublicKeySize && ed25519.Verify(k, input, sig)
	case strings.HasPrefix(alg, "HS") && hf != nil:
		k, ok := pub.([]byte)
		if !ok || len(k) < ch.Size() { // RFC 7518, 3.2: "a key of the same size as the hash output ... or larger MUST be used"
			return false
		}

		m := hmac.New(hf, k)
		m.Write(input)

		return hmac.Equal(m.Sum(nil), sig)
	}

	return false
}

// ---------------------------------------------------------------------------------------------------------
// materialising a case

var c05B64 = base64.RawURLEncoding

// placeholders: {"$now": k} -> t0+k ; string "$SRV..." -> server base URL + rest
func (w *c05World) subst(v any, t0 int64) any {
	switch x := v.(type) {
	case map[string]any:
		if len(x) == 1 {
			if k, ok := x["$jwk"]; ok {
				if n, isNum := k.(json.Number); isNum {
					i, _ := n.Int64()

					var doc map[string]any

					enc, _ := json.Marshal(jose.JSONWebKey{Key: w.mats[int(i)%len(w.mats)].public()})
					_ = json.Unmarshal(enc, &doc)

					return doc
				}
			}

			if k, ok := x["$now"]; ok {
				switch n := k.(type) {
				case json.Number:
					i, _ := n.Int64()

					return json.Number(fmt.Sprint(t0 + i))
				case float64:
					return json.Number(fmt.Sprint(t0 + int64(n)))
				}
			}
		}

		res := make(map[string]any, len(x))
		for k, e := range x {
			res[k] = w.subst(e, t0)
		}

		return res
	case []any:
		res := make([]any, len(x))
		for i, e := range x {
			res[i] = w.subst(e, t0)
		}

		return res
	case string:
		if strings.HasPrefix(x, "$SRV") {
			return w.srv.URL + x[4:]
		}

		return x
	}

	return v
}

func (w *c05World) jwksJSON(spec map[string]any) ([]byte, error) {
	entries := []json.RawMessage{}

	for _, e := range getArr(spec, "keys") {
		k := obj(e)

		if raw, ok := k["raw"]; ok { // an entry served as written in the case (unknown kty, ...)
			enc, err := json.Marshal(raw)
			if err != nil {
				return nil, err
			}

			entries = append(entries, enc)

			continue
		}

		mat := getInt(k, "mat")
		if mat < 0 || mat >= len(w.mats) {
			return nil, fmt.Errorf("unknown key material %d", mat)
		}

		jwk := jose.JSONWebKey{KeyID: getStr(k, "kid"), Algorithm: getStr(k, "alg"), Use: getStr(k, "use")}
		if getStr(k, "form") == "private" {
			jwk.Key = w.mats[mat].private()
		} else {
			jwk.Key = w.mats[mat].public()
		}

		if fl := getStr(k, "cert"); fl != "" && fl != "none" {
			c, err := w.cert(mat, fl)
			if err != nil {
				return nil, err
			}

			jwk.Certificates = []*x509.Certificate{c}
			if fl == "chain" {
				jwk.Certificates = append(jwk.Certificates, w.interCert)
			}
		}

		enc, err := jwk.MarshalJSON()
		if err != nil {
			return nil, err
		}

		entries = append(entries, enc)
	}

	return json.Marshal(map[string]any{"keys": entries})
}

func (w *c05World) jwksAnswer(spec map[string]any) (c05Answer, error) {
	body, err := w.jwksJSON(spec)
	if err != nil {
		return c05Answer{}, err
	}

	switch getStr(spec, "status") {
	case "http500":
		return c05Answer{http.StatusInternalServerError, nil}, nil
	case "http404":
		return c05Answer{http.StatusNotFound, nil}, nil
	case "garbage":
		return c05Answer{http.StatusOK, []byte(`{"keys": [{"kty": "RSA"`)}, nil
	case "badkey":
		return c05Answer{http.StatusOK, []byte(`{"keys": [{"kty": "RSA", "n": "AQAB", "e": ""}]}`)}, nil
	}

	return c05Answer{http.StatusOK, body}, nil
}

// serving installs what the endpoints answer during one step
func (w *c05World) serving(c, step map[string]any) error {
	jwks := obj(step["jwks"])
	if jwks == nil {
		jwks = obj(c["jwks"])
	}

	def, err := w.jwksAnswer(jwks)
	if err != nil {
		return err
	}

	byIss := map[string]c05Answer{}

	for iss, spec := range obj(jwks["by_issuer"]) {
		a, err := w.jwksAnswer(obj(spec))
		if err != nil {
			return err
		}

		issuer, _ := w.subst(iss, 0).(string)
		byIss[issuer] = a
	}

	meta := obj(c["meta"])
	ma := c05Answer{status: http.StatusOK}

	switch getStr(meta, "status") {
	case "http500":
		ma = c05Answer{http.StatusInternalServerError, nil}
	case "nojwks":
		ma.body, _ = json.Marshal(map[string]any{"issuer": w.subst(getStr(meta, "issuer"), 0)})
	case "noissuer":
		ma.body, _ = json.Marshal(map[string]any{"jwks_uri": w.srv.URL + "/jwks"})
	default:
		ma.body, _ = json.Marshal(map[string]any{
			"issuer": w.subst(getStr(meta, "issuer"), 0), "jwks_uri": w.srv.URL + "/jwks",
		})
	}

	w.mu.Lock()
	w.jwks, w.jwksByIss, w.meta = def, byIss, ma
	w.mu.Unlock()

	return nil
}

func (w *c05World) hmacSecretFromPublic(mat int, form string) ([]byte, error) {
	pub := w.mats[mat].public()

	switch form {
	case "der", "pem":
		der, err := x509.MarshalPKIXPublicKey(pub)
		if err != nil {
			return nil, err
		}

		if form == "der" {
			return der, nil
		}

		return pem.EncodeToMemory(&pem.Block{Type: "PUBLIC KEY", Bytes: der}), nil
	case "jwk":
		return json.Marshal(jose.JSONWebKey{Key: pub})
	case "raw":
		switch k := pub.(type) {
		case *rsa.PublicKey:
			return k.N.Bytes(), nil
		case *ecdsa.PublicKey:
			return elliptic.Marshal(k.Curve, k.X, k.Y), nil //nolint:staticcheck
		case ed25519.PublicKey:
			return []byte(k), nil
		}
	}

	return nil, fmt.Errorf("unknown public material form %q", form)
}

func c05JSON(v any) ([]byte, error) {
	var buf bytes.Buffer

	enc := json.NewEncoder(&buf)
	enc.SetEscapeHTML(false)

	if err := enc.Encode(v); err != nil {
		return nil, err
	}

	return bytes.TrimRight(buf.Bytes(), "\n"), nil
}

// mint builds the compact serialisation described by tok at second t0
func (w *c05World) mint(tok map[string]any, t0 int64) (string, error) {
	var (
		hdr, payload []byte
		err          error
	)

	if raw, ok := tok["hdr_raw"].(string); ok {
		hdr = []byte(raw)
	} else if hdr, err = c05JSON(w.subst(tok["hdr"], t0)); err != nil {
		return "", err
	}

	if raw, ok := tok["payload_raw"].(string); ok {
		payload = []byte(raw)
	} else if payload, err = c05JSON(w.subst(tok["claims"], t0)); err != nil {
		return "", err
	}

	signer := obj(tok["signer"])
	kind := getStr(signer, "kind")
	alg := getStr(signer, "alg")

	if kind == "jose" {
		// the go-jose signer (header: alg + the given extra fields, in go-jose's own serialisation)
		mat := getInt(signer, "mat")
		opts := (&jose.SignerOptions{})

		for k, v := range obj(w.subst(tok["hdr"], t0)) {
			if k != "alg" {
				opts = opts.WithHeader(jose.HeaderKey(k), v)
			}
		}

		sg, err := jose.NewSigner(jose.SigningKey{Algorithm: jose.SignatureAlgorithm(alg), Key: w.mats[mat].private()}, opts)
		if err != nil {
			return "", err
		}

		jws, err := sg.Sign(payload)
		if err != nil {
			return "", err
		}

		return jws.CompactSerialize()
	}

	input := c05B64.EncodeToString(hdr) + "." + c05B64.EncodeToString(payload)

	var sig []byte

	switch kind {
	case "key":
		sig, err = c05Sign(alg, w.mats[getInt(signer, "mat")].private(), []byte(input))
	case "hmac_pub":
		var secret []byte

		if secret, err = w.hmacSecretFromPublic(getInt(signer, "mat"), getStr(signer, "form")); err == nil {
			sig, err = c05Sign(alg, secret, []byte(input))
		}
	case "none":
		sig = nil
	case "random":
		sig = make([]byte, getInt(signer, "len"))
		_, _ = rand.Read(sig)
	default:
		err = fmt.Errorf("unknown signer kind %q", kind)
	}

	if err != nil {
		return "", err
	}

	return input + "." + c05B64.EncodeToString(sig), nil
}

const c05Alphabet = "ABCDEFGHIJKLMNOPQRSTUVWXYZabcdefghijklmnopqrstuvwxyz0123456789-_"

// mutate applies the described mutations to the compact serialisation
func (w *c05World) mutate(tok string, muts []any, t0 int64) (string, error) {
	for _, me := range muts {
		m := obj(me)
		parts := strings.Split(tok, ".")
		seg := getInt(m, "seg")

		if seg < 0 || seg >= len(parts) {
			seg = len(parts) - 1
		}

		switch op := getStr(m, "op"); op {
		case "flip": // flip one bit of the decoded segment
			raw, err := c05B64.DecodeString(parts[seg])
			if err != nil || len(raw) == 0 {
				parts[seg] += "A"

				break
			}

			i := getInt(m, "byte") % len(raw)
			raw[i] ^= 1 << (uint(getInt(m, "bit")) % 8)
			parts[seg] = c05B64.EncodeToString(raw)
		case "char": // replace one character of the encoded segment
			if len(parts[seg]) == 0 {
				parts[seg] = getStr(m, "to")

				break
			}

			i := getInt(m, "idx") % len(parts[seg])
			parts[seg] = parts[seg][:i] + getStr(m, "to") + parts[seg][i+1:]
		case "lastbits": // change only the unused trailing bits of the last character (same decoded octets)
			s := parts[seg]
			if len(s) == 0 || len(s)%4 == 0 || len(s)%4 == 1 {
				break
			}

			pos := strings.IndexByte(c05Alphabet, s[len(s)-1])
			if pos < 0 {
				break
			}

			free := 4
			if len(s)%4 == 3 {
				free = 2
			}

			pos ^= 1 + getInt(m, "bits")%((1<<free)-1)
			parts[seg] = s[:len(s)-1] + string(c05Alphabet[pos])
		case "insert": // insert a string at a position of the encoded segment
			i := 0
			if len(parts[seg]) > 0 {
				i = getInt(m, "idx") % (len(parts[seg]) + 1)
			}

			parts[seg] = parts[seg][:i] + getStr(m, "s") + parts[seg][i:]
		case "trunc":
			n := getInt(m, "n")
			if n > len(parts[seg]) {
				n = len(parts[seg])
			}

			parts[seg] = parts[seg][:len(parts[seg])-n]
		case "dropseg":
			parts = append(parts[:seg], parts[seg+1:]...)
		case "addseg":
			parts = append(parts, getStr(m, "s"))
		case "emptysig":
			parts[len(parts)-1] = ""
		case "sethdr", "setclaim": // edit the JSON of header / payload, keep the other segments (signature!)
			idx := 0
			if op == "setclaim" {
				idx = 1
			}

			if idx >= len(parts) {
				break
			}

			raw, err := c05B64.DecodeString(parts[idx])
			if err != nil {
				break
			}

			var doc map[string]any

			dec := json.NewDecoder(bytes.NewReader(raw))
			dec.UseNumber()

			if err = dec.Decode(&doc); err != nil || doc == nil {
				break
			}

			for k, v := range obj(w.subst(m["set"], t0)) {
				doc[k] = v
			}

			for _, k := range getStrs(m, "del") {
				delete(doc, k)
			}

			enc, err := c05JSON(doc)
			if err != nil {
				return "", err
			}

			parts[idx] = c05B64.EncodeToString(enc)
		default:
			return "", fmt.Errorf("unknown mutation %q", op)
		}

		tok = strings.Join(parts, ".")
	}

	return tok, nil
}

// ---------------------------------------------------------------------------------------------------------
// abstraction of the final token string (independent of heimdall and go-jose)

// c05ParseJSON decodes one JSON document with numbers kept verbatim; dup reports a repeated member name in any object
func c05ParseJSON(data []byte) (val any, dup bool, err error) {
	dec := json.NewDecoder(bytes.NewReader(data))
	dec.UseNumber()

	val, dup, err = c05ParseValue(dec)
	if err != nil {
		return nil, false, err
	}

	if _, err = dec.Token(); !errors.Is(err, io.EOF) {
		return nil, false, errors.New("trailing data")
	}

	return val, dup, nil
}

func c05ParseValue(dec *json.Decoder) (any, bool, error) {
	t, err := dec.Token()
	if err != nil {
		return nil, false, err
	}

	d, ok := t.(json.Delim)
	if !ok {
		return t, false, nil
	}

	dup := false

	switch d {
	case '{':
		res := map[string]any{}

		for dec.More() {
			kt, err := dec.Token()
			if err != nil {
				return nil, false, err
			}

			k, _ := kt.(string)
			if _, seen := res[k]; seen {
				dup = true
			}

			v, d2, err := c05ParseValue(dec)
			if err != nil {
				return nil, false, err
			}

			dup = dup || d2
			res[k] = v
		}

		if _, err = dec.Token(); err != nil {
			return nil, false, err
		}

		return res, dup, nil
	case '[':
		res := []any{}

		for dec.More() {
			v, d2, err := c05ParseValue(dec)
			if err != nil {
				return nil, false, err
			}

			dup = dup || d2
			res = append(res, v)
		}

		if _, err = dec.Token(); err != nil {
			return nil, false, err
		}

		return res, dup, nil
	}

	return nil, false, errors.New("unexpected delimiter")
}

// c05PublicJWK reports whether v is a well-formed public JWK (RFC 7517 / 7518), judged with the standard library only
func c05PublicJWK(v any) bool {
	m, ok := v.(map[string]any)
	if !ok {
		return false
	}

	if _, private := m["d"]; private {
		return false
	}

	octets := func(name string) []byte {
		str, _ := m[name].(string)

		b, err := c05B64.DecodeString(str)
		if err != nil || len(b) == 0 {
			return nil
		}

		return b
	}

	switch m["kty"] {
	case "RSA":
		return octets("n") != nil && octets("e") != nil
	case "EC":
		curve := map[any]elliptic.Curve{"P-256": elliptic.P256(), "P-384": elliptic.P384(), "P-521": elliptic.P521()}[m["crv"]]
		x, y := octets("x"), octets("y")

		return curve != nil && x != nil && y != nil &&
			curve.IsOnCurve(new(big.Int).SetBytes(x), new(big.Int).SetBytes(y)) //nolint:staticcheck
	case "OKP":
		return m["crv"] == "Ed25519" && len(octets("x")) == ed25519.PublicKeySize
	}

	return false
}

func (w *c05World) abstract(tok string, present bool, t0 int64) map[string]any {
	abs := map[string]any{"present": present, "now": t0}
	if !present {
		return abs
	}

	tok = strings.TrimSpace(tok) // the Authorization header extractor trims the value
	abs["wf"] = false

	parts := strings.Split(tok, ".")
	if len(parts) != 3 {
		abs["why"] = "parts"

		return abs
	}

	raw := make([][]byte, 3)

	for i, p := range parts {
		b, err := c05B64.DecodeString(p)
		if err != nil {
			abs["why"] = "base64"

			return abs
		}

		raw[i] = b
	}

	hv, hdup, err := c05ParseJSON(raw[0])
	hdr, isObj := hv.(map[string]any)

	if err != nil || !isObj || hdup {
		abs["why"] = "header"

		return abs
	}

	alg, kid := "", ""

	if v, ok := hdr["alg"]; ok && v != nil {
		s, isStr := v.(string)
		if !isStr {
			abs["why"] = "alg"

			return abs
		}

		alg = s
	}

	if v, ok := hdr["kid"]; ok && v != nil {
		s, isStr := v.(string)
		if !isStr {
			abs["why"] = "kid"

			return abs
		}

		kid = s
	}

	critBad := false

	if v, ok := hdr["crit"]; ok {
		names, isArr := v.([]any)
		critBad = !isArr

		for _, n := range names {
			if s, _ := n.(string); s != "b64" {
				critBad = true
			}
		}
	}

	_, hasB64 := hdr["b64"]

	if v, ok := hdr["jwk"]; ok && v != nil && !c05PublicJWK(v) {
		// RFC 7515, 4.1.3: only a well-formed public key may be embedded (it is never used for verification)
		abs["why"] = "jwk"

		return abs
	}

	if v, ok := hdr["x5c"]; ok && v != nil { // RFC 7515, 4.1.6: base64 (not base64url) encoded DER certificates
		chain, isArr := v.([]any)
		if !isArr {
			abs["why"] = "x5c"

			return abs
		}

		for _, e := range chain {
			str, _ := e.(string)

			der, err := base64.StdEncoding.DecodeString(str)
			if err == nil {
				_, err = x509.ParseCertificate(der)
			}

			if err != nil {
				abs["why"] = "x5c"

				return abs
			}
		}
	}

	abs["wf"] = true
	abs["alg"] = alg
	abs["kid"] = kid
	abs["crit_bad"] = critBad
	abs["unmodelled_header"] = hasB64
	abs["canonical"] = parts[0] == c05B64.EncodeToString(raw[0]) && parts[1] == c05B64.EncodeToString(raw[1]) &&
		parts[2] == c05B64.EncodeToString(raw[2])

	pv, pdup, err := c05ParseJSON(raw[1])
	abs["payload_json"] = err == nil && !pdup

	if err == nil && !pdup {
		abs["payload"] = pv
	}

	input := []byte(c05B64.EncodeToString(raw[0]) + "." + c05B64.EncodeToString(raw[1]))
	sig := make([]bool, len(w.mats))

	for i, m := range w.mats {
		if m.ready.Load() { // material never used so far can neither have signed the token nor be in a key set
			sig[i] = c05Verify(alg, m.public(), input, raw[2])
		}
	}

	abs["sig"] = sig

	return abs
}

// ---------------------------------------------------------------------------------------------------------
// the case

type c05Creation struct{ authenticators.CreationContext }

func c05Kind(err error) string {
	for _, k := range []struct {
		name string
		err  error
	}{
		{"authentication", heimdall.ErrAuthentication}, {"communication_timeout", heimdall.ErrCommunicationTimeout},
		{"communication", heimdall.ErrCommunication}, {"internal", heimdall.ErrInternal},
		{"configuration", heimdall.ErrConfiguration}, {"argument", heimdall.ErrArgument},
	} {
		if errors.Is(err, k.err) {
			return k.name
		}
	}

	return "other"
}

func (w *c05World) config(c map[string]any) map[string]any {
	conf := map[string]any{}
	cc := obj(c["conf"])

	if getStr(c, "mode") == "metadata" {
		meta := obj(c["meta"])
		conf["metadata_endpoint"] = map[string]any{
			"url": w.srv.URL + "/.well-known/openid-configuration",
			"disable_issuer_identifier_verification": !getBool(meta, "verify"),
		}
	} else if getBool(cc, "templated") { // one key set per issuer, selected by the (unverified) iss claim
		conf["jwks_endpoint"] = map[string]any{"url": w.srv.URL + "/jwks?iss={{ .TokenIssuer }}"}
	} else {
		conf["jwks_endpoint"] = map[string]any{"url": w.srv.URL + "/jwks"}
	}

	if a, ok := cc["assertions"]; ok && a != nil {
		conf["assertions"] = w.subst(a, 0)
	}

	if s, ok := cc["subject"]; ok && s != nil {
		conf["subject"] = s
	}

	if v, ok := cc["validate_jwk"]; ok && v != nil {
		conf["validate_jwk"] = v
	}

	if getBool(cc, "trust_store") {
		conf["trust_store"] = w.trustFile
	}

	if v, ok := cc["cache_ttl"]; ok && v != nil {
		conf["cache_ttl"] = v
	}

	return conf
}

// c05Hexify spells every string of a value (member names and string values) as the hexadecimal form of its octets:
// member names become hex, a string value becomes "s:" + hex; numbers, booleans and null stay as they are
func c05Hexify(v any) any {
	switch x := v.(type) {
	case map[string]any:
		res := make(map[string]any, len(x))
		for k, e := range x {
			res[hex.EncodeToString([]byte(k))] = c05Hexify(e)
		}

		return res
	case []any:
		res := make([]any, len(x))
		for i, e := range x {
			res[i] = c05Hexify(e)
		}

		return res
	case string:
		return "s:" + hex.EncodeToString([]byte(x))
	}

	return v
}

// neighbours: the other mechanisms of the process (case member "neighbours": type, complete configuration with
// "$SRV" placeholders, optional rule-level configuration, moment "at"). A real configuration creates many mechanisms
// in one process - further jwt authenticators, oauth2_introspection authenticators (which embed the same
// oauth2.Expectation), rule-level copies of them; they are created here with the real CreatePrototype / WithConfig
// at the moment the case names: "before" the authenticator under test, "between" its prototype and its rule-level
// copy, or a number k = just before request k. What their creation answers is reported, never compared.
func (w *c05World) neighbours(c map[string]any, at string, log *[]any) {
	for i, e := range getArr(c, "neighbours") {
		n := obj(e)

		when := "before"
		switch x := n["at"].(type) {
		case string:
			when = x
		case json.Number:
			when = x.String()
		case float64:
			when = fmt.Sprint(int64(x))
		}

		if when != at {
			continue
		}

		outcome := "created"

		proto, err := authenticators.CreatePrototype(c05Creation{}, fmt.Sprintf("c05-neighbour-%d", i),
			getStr(n, "type"), obj(w.subst(n["conf"], 0)))
		if err != nil {
			outcome = "config:" + c05Kind(err)
		} else if rc := obj(n["rule"]); rc != nil {
			if _, err = proto.WithConfig(obj(w.subst(rc, 0))); err != nil {
				outcome = "rule:" + c05Kind(err)
			} else {
				outcome = "created+rule"
			}
		}

		*log = append(*log, fmt.Sprintf("%d@%s:%s", i, at, outcome))
	}
}

// one request: mint, execute, abstract. ok reports whether it ran inside one clock second.
func (w *c05World) request(auth authenticators.Authenticator, cch cache.Cache, tokSpec map[string]any) (
	res, abs, info map[string]any, ok bool, err error,
) {
	t0 := time.Now().Unix()
	token, present := "", tokSpec != nil

	if present {
		if token, err = w.mint(tokSpec, t0); err != nil {
			return nil, nil, nil, false, err
		}

		if token, err = w.mutate(token, getArr(tokSpec, "mut"), t0); err != nil {
			return nil, nil, nil, false, err
		}
	}

	req := httptest.NewRequest(http.MethodGet, "http://heimdall.local/protected", nil)
	req = req.WithContext(cache.WithContext(req.Context(), cch))

	if present {
		req.Header.Set("Authorization", "Bearer "+token)
	}

	sub, execErr := auth.Execute(requestcontext.New(req))
	t1 := time.Now().Unix()

	info = map[string]any{"token": token}

	switch {
	case execErr != nil && sub != nil:
		res = map[string]any{"verdict": "both"}
	case execErr != nil:
		res = map[string]any{"verdict": "reject"}
		info["kind"] = c05Kind(execErr)
	case sub == nil:
		res = map[string]any{"verdict": "neither"}
	default:
		// id_hex / attrs_hex: the octets of the subject id and of every attribute name and string value, so that no
		// encoder or decoder between the authenticator and the comparison can make two different strings look alike
		res = map[string]any{"verdict": "accept", "id": sub.ID, "attrs": map[string]any(sub.Attributes),
			"id_hex": hex.EncodeToString([]byte(sub.ID)), "attrs_hex": c05Hexify(map[string]any(sub.Attributes))}
	}

	return res, w.abstract(token, present, t0), info, t0 == t1, nil
}

func runJwt(c map[string]any) (any, error) {
	c05Once.Do(c05Setup)

	if c05Err != nil || c05W == nil {
		return nil, fmt.Errorf("setup failed: %v", c05Err)
	}

	w := c05W

	if getStr(c, "op") == "algs" { // the algorithm lists as the linked code states them
		return map[string]any{
			"supported":       authenticators.VerifC05SupportedAlgorithms(),
			"default_allowed": authenticators.VerifC05DefaultAllowedAlgorithms(),
		}, nil
	}

	steps := []map[string]any{}
	for _, p := range getArr(c, "pre") {
		steps = append(steps, obj(p))
	}

	steps = append(steps, map[string]any{"jwks": c["jwks"], "token": c["token"]})

	var out map[string]any

	for tries := 1; tries <= 8; tries++ {
		nlog := []any{}

		w.neighbours(c, "before", &nlog)

		// the authenticator, built the way the mechanism catalogue builds it; a real (empty) in-memory cache
		proto, err := authenticators.CreatePrototype(c05Creation{}, "c05", authenticators.AuthenticatorJwt, w.config(c))
		if err != nil {
			return map[string]any{"res": map[string]any{"verdict": "config"},
				"info": map[string]any{"kind": c05Kind(err), "srv": w.srv.URL}}, nil
		}

		auth := proto

		w.neighbours(c, "between", &nlog)

		if rc := obj(c["rule"]); rc != nil {
			if auth, err = proto.WithConfig(obj(w.subst(rc, 0))); err != nil {
				return map[string]any{"res": map[string]any{"verdict": "config"},
					"info": map[string]any{"kind": c05Kind(err), "at": "rule", "srv": w.srv.URL}}, nil
			}
		}

		cch, err := memory.NewCache(nil, nil, nil)
		if err != nil {
			return nil, err
		}

		w.mu.Lock()
		w.jwksCalls, w.metaCalls = 0, 0
		w.mu.Unlock()

		allOK := true
		pre := []any{}
		absPre := []any{}

		var res, abs, info map[string]any

		for i, st := range steps {
			w.neighbours(c, fmt.Sprint(i), &nlog)

			if err = w.serving(c, st); err != nil {
				return nil, err
			}

			var ok bool

			if res, abs, info, ok, err = w.request(auth, cch, obj(st["token"])); err != nil {
				return nil, err
			}

			allOK = allOK && ok

			if i < len(steps)-1 {
				pre = append(pre, res)
				absPre = append(absPre, abs)
			}
		}

		res["pre"] = pre
		info["clock_ok"], info["tries"], info["srv"] = allOK, tries, w.srv.URL
		info["fallback"] = auth.IsFallbackOnErrorAllowed()
		info["neighbours"] = nlog

		w.mu.Lock()
		info["jwks_calls"], info["meta_calls"] = w.jwksCalls, w.metaCalls
		w.mu.Unlock()

		out = map[string]any{"res": res, "abs": abs, "abs_pre": absPre, "info": info}

		if allOK {
			break
		}
	}

	return out, nil
}

var _ = sort.Strings
