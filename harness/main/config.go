package main

// Family "config" (property C20): the real configuration loader (defaults -> file -> environment) is run
// in-process on generated inputs.
//
//	op "load": parser.New(...).Load into a probe struct whose fields are untyped, so that the merged tree is observed
//	           before typed decoding (tie of the tree model)
//	op "cfg":  config.NewConfiguration (real Configuration struct, real decode hooks, real schema validation); with
//	           "at": [path] only the scalar at that path of the dumped configuration is reported ({"leaf": ...})
//	op "validate": config.ValidateConfig on the file alone
//	op "leaf": parser.New(...).Load into a probe struct with typed fields (string, int, bool, duration, nested, list,
//	           structures inside a list, free-form maps; optionally pre-filled with defaults) with the decode hooks
//	           NewConfiguration uses: how one scalar arrives at a leaf of a given type
//	op "yaml": how gopkg.in/yaml.v3 reads the text of an environment variable (what env.go toRealType does)
//	op "history": several config.NewConfiguration loads one after the other in THIS process; every result is dumped
//	           when it is returned and again after all later loads
//	op "readings": for every text, what each of the three places that let a YAML decoder decide makes of it as the value
//	           of a property: "env" / "file" = what the real parser.Load delivers for an untyped property given by a
//	           variable (typed by env.go toRealType) / by the file (read by yaml.go koanfFromYaml), "validator" = the JSON
//	           type the real ValidateConfig sees, found out with files that say the text where the schema wants a string /
//	           a boolean / an integer (the decoder is inside ValidateConfig)
//
//	op "mech": config.NewConfiguration followed by mechanisms.NewMechanismFactory (config_mech.go): is the mechanism
//	           catalogue usable, and which option names does the failing stage refuse by name
//
// A case may carry "refs": {NAME: contents} - variables of the process the file of the case may refer to (`${NAME}`).
//
// A case may carry "prefix": the text handed to WithEnvPrefix / NewConfiguration instead of the private prefix (lower or
// mixed case, padded with blanks, empty); its variables are then set under their FULL names (foreign ones, which do not
// start with the prefix, among them); "clean_env": the process environment is emptied for the case (empty prefix: the
// loader takes every variable).
//
// Environment variables are set in-process under a private prefix, in the order given by the case; every load
// is repeated (Go map iteration order is random and the loader goes through maps), all distinct outcomes
// are reported.

import (
	"encoding/json"
	"errors"
	"os"
	"sort"
	"strconv"
	"strings"
	"time"

	"github.com/go-viper/mapstructure/v2"

	"gopkg.in/yaml.v3"

	"github.com/dadrus/heimdall/internal/config"
	"github.com/dadrus/heimdall/internal/config/parser"
	"github.com/dadrus/heimdall/internal/heimdall"
)

const c20Prefix = "VERIFC20CFG_"

type c20Probe struct {
	A  any `koanf:"a"`
	B  any `koanf:"b"`
	C  any `koanf:"c"`
	AB any `koanf:"a_b"`
	L  any `koanf:"l"`
	M  any `koanf:"m"`
	X1 any `koanf:"x1"`
}

// c20Elem: a structure inside a list (like a mechanism): typed members and a free-form map
type c20Elem struct {
	S string         `koanf:"s"`
	I int            `koanf:"i"`
	C map[string]any `koanf:"c,omitempty"`
}

// slices and maps are `omitempty` as in the real Configuration (a typed nil slice among the defaults makes the
// loader refuse every list for that property)
type c20Typed struct {
	S string        `koanf:"s"`
	I int           `koanf:"i"`
	B bool          `koanf:"b"`
	D time.Duration `koanf:"d,string"`
	N struct {
		S string `koanf:"s"`
		I int    `koanf:"i"`
	} `koanf:"n"`
	L []string       `koanf:"l,omitempty"`
	P *string        `koanf:"p,omitempty"`
	E []c20Elem      `koanf:"e,omitempty"`
	M map[string]any `koanf:"m,omitempty"`
}

// c20Untyped reports a free-form value with its scalars as c20Scalar shows them
func c20Untyped(v any) any {
	switch t := v.(type) {
	case map[string]any:
		res := make(map[string]any, len(t))
		for k, x := range t {
			res[k] = c20Untyped(x)
		}

		return res
	case []any:
		res := make([]any, len(t))
		for i, x := range t {
			res[i] = c20Untyped(x)
		}

		return res
	default:
		return c20Scalar(v)
	}
}

// c20TypedDefaults fills the probe as defaultConfig() fills the real Configuration: {"s","i","b","d","n.s","n.i","m"}
func c20TypedDefaults(probe *c20Typed, defaults map[string]any) {
	for k, v := range defaults {
		switch k {
		case "s":
			probe.S, _ = v.(string)
		case "n.s":
			probe.N.S, _ = v.(string)
		case "i":
			probe.I, _ = c20Plain(v).(int)
		case "n.i":
			probe.N.I, _ = c20Plain(v).(int)
		case "b":
			probe.B, _ = v.(bool)
		case "d":
			str, _ := v.(string)
			probe.D, _ = time.ParseDuration(str)
		case "m":
			probe.M, _ = c20Plain(v).(map[string]any)
		}
	}
}

func init() { families["config"] = runConfig }

// c20Scalar reports a YAML scalar as the model wants it: strings, integers, booleans as such, floats with the text
// mapstructure's weak decoding would give them, everything else by kind
func c20Scalar(v any) any {
	switch t := v.(type) {
	case nil, string, bool, int:
		return t
	case int64:
		return t
	case uint64:
		return t
	case float64:
		return map[string]any{"$float": strconv.FormatFloat(t, 'f', -1, 64)}
	case map[string]any, []any:
		return map[string]any{"$collection": true}
	case time.Time:
		return map[string]any{"$time": true}
	default:
		return map[string]any{"$other": true}
	}
}

func c20Dump(cfg *config.Configuration) any {
	raw, err := yaml.Marshal(cfg)
	if err != nil {
		return "err:marshal"
	}

	var tree any
	if err = yaml.Unmarshal(raw, &tree); err != nil {
		return "err:marshal"
	}

	return tree
}

// c20At: the scalar at a path (keys and list indices) of the dumped configuration, as c20Scalar shows it; nil where
// there is none
func c20At(tree any, at []any) any {
	node := tree

	for _, seg := range at {
		switch key := seg.(type) {
		case string:
			m, ok := node.(map[string]any)
			if !ok {
				return nil
			}

			node = m[key]
		case json.Number:
			l, ok := node.([]any)
			idx, err := key.Int64()

			if !ok || err != nil || idx < 0 || int(idx) >= len(l) {
				return nil
			}

			node = l[idx]
		default:
			return nil
		}
	}

	return c20Scalar(node)
}

func c20WriteFile(content string) (string, error) {
	tf, err := os.CreateTemp("", "verif-c20-*.yaml")
	if err != nil {
		return "", err
	}

	defer tf.Close()

	if _, err = tf.WriteString(content); err != nil {
		return "", err
	}

	return tf.Name(), nil
}

// c20History: loads[i] = {file?, env}; returns what every load returned at that time ("then") and what the very same
// objects hold after all loads ("now")
func c20History(c map[string]any) (any, error) {
	var (
		then []any
		cfgs []*config.Configuration
	)

	for _, l := range getArr(c, "loads") {
		load := obj(l)

		c20ClearEnv()

		for _, e := range getArr(load, "env") {
			kv := getStrs(map[string]any{"kv": e}, "kv")
			if err := c20Setenv(load, kv[0], kv[1]); err != nil {
				return nil, err
			}
		}

		file := ""

		if content, ok := load["file"].(string); ok {
			name, err := c20WriteFile(content)
			if err != nil {
				return nil, err
			}

			defer os.Remove(name)

			file = name
		}

		func() {
			defer func() {
				if r := recover(); r != nil {
					then = append(then, "panic")
					cfgs = append(cfgs, nil)
				}
			}()

			cfg, err := config.NewConfiguration(config.EnvVarPrefix(c20EnvPrefix(load)), config.ConfigurationPath(file))
			if err != nil {
				then = append(then, c20ErrKind(err))
				cfgs = append(cfgs, nil)

				return
			}

			then = append(then, c20Dump(cfg))
			cfgs = append(cfgs, cfg)
		}()
	}

	now := make([]any, len(cfgs))

	for i, cfg := range cfgs {
		if cfg == nil {
			now[i] = then[i]
		} else {
			now[i] = c20Dump(cfg)
		}
	}

	return map[string]any{"then": then, "now": now}, nil
}

// c20ValidatorProbes: one place per JSON type in schema/config.schema.json (%s = the text); the answer is the first
// type under which ValidateConfig lets the file pass
var c20ValidatorProbes = []struct{ typ, doc string }{
	{"string", "serve:\n  proxy:\n    host: %s\n"},
	{"boolean", "metrics:\n  enabled: %s\n"},
	{"integer", "serve:\n  proxy:\n    port: %s\n"},
}

func c20ValidatorSees(text string) string {
	seen := "other"

	for _, probe := range c20ValidatorProbes {
		name, err := c20WriteFile(strings.Replace(probe.doc, "%s", text, 1))
		if err != nil {
			return "err:io"
		}

		err = config.ValidateConfig(name)

		os.Remove(name)

		if err == nil {
			return probe.typ
		}

		if kind := c20ErrKind(err); kind != "err:schema" && kind != "err:schema-required" {
			seen = "unreadable"
		}
	}

	return seen
}

// c20SubstEnv: variables a configuration file may refer to (`${VERIFC20SUB_PORT}`); their names do not start with the
// prefix of the configuration variables, so they define no property
var c20SubstEnv = map[string]string{"VERIFC20SUB_PORT": "9000", "VERIFC20SUB_FLAG": "true", "VERIFC20SUB_HOST": "yes"}

// c20ValProbe: one untyped property; what the loader delivers for it is the reading of the loader
type c20ValProbe struct {
	Val any `koanf:"val"`
}

// c20LoaderReads: the real parser.Load with the text as the value of the property `val`, given by the file
// (`val: text`, read by yaml.go koanfFromYaml) or by the variable <prefix>VAL (typed by env.go toRealType)
func c20LoaderReads(text string, fromFile bool) (out any) {
	defer func() {
		if r := recover(); r != nil {
			out = map[string]any{"$panic": true}
		}
	}()

	c20ClearEnv()
	defer c20ClearEnv()

	opts := []parser.Option{parser.WithEnvPrefix(c20Prefix)}

	if fromFile {
		name, err := c20WriteFile("val: " + text + "\n")
		if err != nil {
			return map[string]any{"$io": true}
		}

		defer os.Remove(name)

		opts = append(opts, parser.WithConfigFile(name))
	} else if err := os.Setenv(c20Prefix+"VAL", text); err != nil {
		return map[string]any{"$io": true}
	}

	probe := c20ValProbe{}
	if err := parser.New(opts...).Load(&probe); err != nil {
		return map[string]any{"$unreadable": true}
	}

	return c20Scalar(probe.Val)
}

func c20Readings(c map[string]any) (any, error) {
	res := []any{}

	if _, own := c["refs"]; !own {
		for k, v := range c20SubstEnv {
			os.Setenv(k, v)
			defer os.Unsetenv(k)
		}
	}

	for _, raw := range getStrs(c, "raw") {
		res = append(res, map[string]any{
			"env":       c20LoaderReads(raw, false),
			"file":      c20LoaderReads(raw, true),
			"validator": c20ValidatorSees(raw),
		})
	}

	return res, nil
}

func c20ClearEnv() {
	for _, kv := range os.Environ() {
		if strings.HasPrefix(kv, c20Prefix) {
			os.Unsetenv(strings.SplitN(kv, "=", 2)[0])
		}
	}

	for name := range c20SetNames {
		os.Unsetenv(name)
	}

	c20SetNames = map[string]bool{}
}

// c20SetNames: variables set under their full name (cases with a prefix of their own), removed by c20ClearEnv
var c20SetNames = map[string]bool{}

// c20EnvPrefix: the prefix handed to the loader. A case may bring its own ("prefix": any text, as the operator passes
// it with --env-config-prefix: lower / mixed case, without the trailing underscore, padded with blanks, empty); the
// names of its variables are then FULL names as the process environment holds them, and some of them do not carry
// the prefix at all
func c20EnvPrefix(c map[string]any) string {
	if p, ok := c["prefix"].(string); ok {
		return p
	}

	return c20Prefix
}

func c20Setenv(c map[string]any, name, val string) error {
	if _, ok := c["prefix"].(string); ok {
		c20SetNames[name] = true

		return os.Setenv(name, val)
	}

	return os.Setenv(c20Prefix+name, val)
}

// c20IsolateEnv: for a case whose prefix is empty (the loader then takes EVERY variable of the process) the process
// environment is emptied for the duration of the case; the returned function puts it back
func c20IsolateEnv(c map[string]any) func() {
	if !getBool(c, "clean_env") {
		return func() {}
	}

	saved := os.Environ()

	os.Clearenv()

	return func() {
		os.Clearenv()

		for _, kv := range saved {
			if parts := strings.SplitN(kv, "=", 2); len(parts) == 2 && parts[0] != "" {
				os.Setenv(parts[0], parts[1])
			}
		}
	}
}

// c20Norm converts what the loaders produce into plain JSON values (json.Number inputs -> int)
func c20Plain(v any) any {
	switch t := v.(type) {
	case map[string]any:
		res := make(map[string]any, len(t))
		for k, x := range t {
			res[k] = c20Plain(x)
		}

		return res
	case []any:
		res := make([]any, len(t))
		for i, x := range t {
			res[i] = c20Plain(x)
		}

		return res
	case json.Number:
		if i, err := t.Int64(); err == nil {
			return int(i)
		}

		f, _ := t.Float64()

		return f
	default:
		return v
	}
}

func c20ErrKind(err error) string {
	msg := err.Error()

	switch {
	case strings.Contains(msg, "jsonschema validation failed"):
		if strings.Contains(msg, "missing propert") {
			return "err:schema-required"
		}

		return "err:schema"
	case errors.Is(err, heimdall.ErrConfiguration):
		return "err:configuration"
	default:
		return "err:decode"
	}
}

func c20LoadOnce(c map[string]any, file string) (out any) {
	defer func() {
		if r := recover(); r != nil {
			out = "panic"
		}
	}()

	if getStr(c, "op") == "validate" {
		if err := config.ValidateConfig(file); err != nil {
			return c20ErrKind(err)
		}

		return "ok"
	}

	if getStr(c, "op") == "mech" {
		return c20Mech(c, file)
	}

	if getStr(c, "op") == "cfg" {
		cfg, err := config.NewConfiguration(config.EnvVarPrefix(c20EnvPrefix(c)), config.ConfigurationPath(file))
		if err != nil {
			if getBool(c, "debug") {
				return c20ErrKind(err) + " " + err.Error()
			}

			return c20ErrKind(err)
		}

		if at, ok := c["at"].([]any); ok {
			return map[string]any{"leaf": c20At(c20Dump(cfg), at)}
		}

		return c20Dump(cfg)
	}

	if getStr(c, "op") == "leaf" {
		probe := c20Typed{}

		if defaults, ok := c["defaults"].(map[string]any); ok {
			c20TypedDefaults(&probe, defaults)
		}

		opts := []parser.Option{
			parser.WithEnvPrefix(c20EnvPrefix(c)),
			parser.WithDecodeHookFunc(mapstructure.StringToTimeDurationHookFunc()),
			parser.WithDecodeHookFunc(mapstructure.StringToSliceHookFunc(",")),
		}
		if file != "" {
			opts = append(opts, parser.WithConfigFile(file))
		}

		if err := parser.New(opts...).Load(&probe); err != nil {
			return c20ErrKind(err)
		}

		res := map[string]any{"s": probe.S, "i": probe.I, "b": probe.B, "d": probe.D.String(), "n.s": probe.N.S,
			"n.i": probe.N.I, "l": probe.L}
		if probe.P != nil {
			res["p"] = *probe.P
		}

		if probe.E != nil {
			elems := make([]any, len(probe.E))
			for i, e := range probe.E {
				elems[i] = map[string]any{"s": e.S, "i": e.I, "c": c20Untyped(map[string]any(e.C))}
			}

			res["e"] = elems
		}

		if probe.M != nil {
			res["m"] = c20Untyped(probe.M)
		}

		return res
	}

	probe := c20Probe{}
	defaults := obj(c20Plain(c["defaults"]))
	probe.A, probe.B, probe.C, probe.AB = defaults["a"], defaults["b"], defaults["c"], defaults["a_b"]
	probe.L, probe.M, probe.X1 = defaults["l"], defaults["m"], defaults["x1"]

	opts := []parser.Option{parser.WithEnvPrefix(c20EnvPrefix(c))}
	if file != "" {
		opts = append(opts, parser.WithConfigFile(file))
	}

	if err := parser.New(opts...).Load(&probe); err != nil {
		return c20ErrKind(err)
	}

	res := map[string]any{}

	for k, v := range map[string]any{
		"a": probe.A, "b": probe.B, "c": probe.C, "a_b": probe.AB, "l": probe.L, "m": probe.M, "x1": probe.X1,
	} {
		if v != nil {
			res[k] = v
		}
	}

	return res
}

// c20SetRefs: "refs" of a case = variables of the process the FILE may refer to (`password: "${VERIFC20SUB_R3}"`); their
// names do not start with any prefix of the configuration variables, so they define no property themselves. Set for
// the duration of the case.
func c20SetRefs(c map[string]any) func() {
	refs, ok := c["refs"].(map[string]any)
	if !ok {
		return func() {}
	}

	names := []string{}

	for k, v := range refs {
		if text, isStr := v.(string); isStr {
			os.Setenv(k, text)

			names = append(names, k)
		}
	}

	return func() {
		for _, k := range names {
			os.Unsetenv(k)
		}
	}
}

func runConfig(c map[string]any) (any, error) {
	c20ClearEnv()
	defer c20ClearEnv()
	defer c20SetRefs(c)()

	switch getStr(c, "op") {
	case "history":
		return c20History(c)
	case "readings":
		return c20Readings(c)
	case "yaml":
		res := []any{}

		for _, raw := range getStrs(c, "raw") {
			var parsed map[string]any

			yaml.Unmarshal([]byte("val: "+raw), &parsed) //nolint:errcheck

			res = append(res, c20Scalar(parsed["val"]))
		}

		return res, nil
	}

	file := ""

	if content, ok := c["file"].(string); ok {
		tf, err := os.CreateTemp("", "verif-c20-*.yaml")
		if err != nil {
			return nil, err
		}

		defer os.Remove(tf.Name())

		if _, err = tf.WriteString(content); err != nil {
			return nil, err
		}

		tf.Close()

		file = tf.Name()
	}

	defer c20IsolateEnv(c)()

	env := getArr(c, "env")
	orders := getArr(c, "orders")

	if len(orders) == 0 {
		ident := make([]any, len(env))
		for i := range env {
			ident[i] = i
		}

		orders = []any{ident}
	}

	rep := getInt(c, "rep")
	if rep < 1 {
		rep = 1
	}

	seen := map[string]any{}

	for _, o := range orders {
		c20ClearEnv()

		for _, idx := range o.([]any) {
			var i int

			switch n := idx.(type) {
			case json.Number:
				i64, _ := n.Int64()
				i = int(i64)
			case int:
				i = n
			}

			kv := getStrs(map[string]any{"kv": env[i]}, "kv")
			if err := c20Setenv(c, kv[0], kv[1]); err != nil {
				return nil, err
			}
		}

		for range rep {
			out := c20LoadOnce(c, file)

			raw, err := json.Marshal(out)
			if err != nil {
				return nil, err
			}

			seen[string(raw)] = out
		}
	}

	keys := make([]string, 0, len(seen))
	for k := range seen {
		keys = append(keys, k)
	}

	sort.Strings(keys)

	res := make([]any, 0, len(keys))
	for _, k := range keys {
		res = append(res, seen[k])
	}

	return res, nil
}
