package main

import (
	"bytes"
	"context"
	"crypto"
	"crypto/ecdsa"
	"crypto/elliptic"
	"crypto/rand"
	"crypto/rsa"
	"crypto/sha1" //nolint:gosec
	"crypto/x509"
	"crypto/x509/pkix"
	"encoding/base64"
	"encoding/hex"
	"encoding/json"
	"encoding/pem"
	"errors"
	"fmt"
	"io"
	"math/big"
	"net"
	"net/http"
	"net/http/httptest"
	"os"
	"path/filepath"
	"regexp"
	"sort"
	"strings"
	"sync"
	"sync/atomic"
	"time"

	"github.com/go-jose/go-jose/v4"
	"github.com/go-jose/go-jose/v4/jwt"
	"github.com/rs/zerolog"
	"github.com/youmark/pkcs8"

	"github.com/dadrus/heimdall/internal/cache"
	"github.com/dadrus/heimdall/internal/cache/memory"
	"github.com/dadrus/heimdall/internal/config"
	"github.com/dadrus/heimdall/internal/handler/management"
	"github.com/dadrus/heimdall/internal/handler/requestcontext"
	"github.com/dadrus/heimdall/internal/heimdall"
	"github.com/dadrus/heimdall/internal/keyholder"
	"github.com/dadrus/heimdall/internal/keystore"
	"github.com/dadrus/heimdall/internal/otel/metrics/certificate"
	"github.com/dadrus/heimdall/internal/rules/mechanisms/finalizers"
	"github.com/dadrus/heimdall/internal/rules/mechanisms/subject"
	"github.com/dadrus/heimdall/internal/watcher"
	"github.com/dadrus/heimdall/internal/zzverif/zzsync"
)

// Families "signer" and "signerconc" (C16): the real jwt finalizer (created through finalizers.CreatePrototype from
// a configuration map), real key store files, the real key holder registry and the real management service on a
// loopback port.  Tokens are taken from the upstream header the finalizer sets on a real request context and are
// verified with go-jose against the body of the JWKS endpoint.

func init() {
	families["signer"] = c16RunSigner
	families["signerconc"] = c16RunSignerConc
	families["signerwatch"] = c16RunSignerWatch
}

// ---------------------------------------------------------------------------------------------------------------
// key pool (generated once per process; referenced by type and running number)

var (
	c16PoolMu sync.Mutex
	c16Pool   = map[string]crypto.Signer{}
)

func c16Key(typ string, n int) (crypto.Signer, error) {
	id := fmt.Sprintf("%s#%d", typ, n)

	c16PoolMu.Lock()
	defer c16PoolMu.Unlock()

	if k, ok := c16Pool[id]; ok {
		return k, nil
	}

	var (
		k   crypto.Signer
		err error
	)

	switch typ {
	case "rsa1024":
		k, err = rsa.GenerateKey(rand.Reader, 1024) //nolint:gosec
	case "rsa2048":
		k, err = rsa.GenerateKey(rand.Reader, 2048)
	case "rsa3072":
		k, err = rsa.GenerateKey(rand.Reader, 3072)
	case "rsa4096":
		k, err = rsa.GenerateKey(rand.Reader, 4096)
	case "p224":
		k, err = ecdsa.GenerateKey(elliptic.P224(), rand.Reader)
	case "p256":
		k, err = ecdsa.GenerateKey(elliptic.P256(), rand.Reader)
	case "p384":
		k, err = ecdsa.GenerateKey(elliptic.P384(), rand.Reader)
	case "p521":
		k, err = ecdsa.GenerateKey(elliptic.P521(), rand.Reader)
	default:
		err = fmt.Errorf("unknown key type %s", typ)
	}

	if err != nil {
		return nil, err
	}

	c16Pool[id] = k

	return k, nil
}

func c16AutoKid(pub crypto.PublicKey) string {
	der, err := x509.MarshalPKIXPublicKey(pub)
	if err != nil {
		return ""
	}

	sum := sha1.Sum(der) //nolint:gosec

	return hex.EncodeToString(sum[:])
}

// ---------------------------------------------------------------------------------------------------------------
// one case: keys, certificates, files

type c16Env struct {
	dir    string
	keys   []crypto.Signer // pid -> key
	auto   map[string]int  // auto key id -> pid
	cas    map[int]*c16CA  // ca number -> CA
	certs  map[string]int  // sha1(DER) -> cid
	serial int64
	// cases on the wall clock with certificates that run out while the case runs ("expiry_clock"): the start of the
	// case, and for every such certificate the instant the model has for its NotAfter (milliseconds since the start)
	// next to the real one (whole seconds, not later than the model's)
	origin   time.Time
	expiries []c16Expiry
}

type c16Expiry struct {
	modelMs  int
	notAfter time.Time
}

// notAfterIn: the NotAfter of a certificate that runs out ms milliseconds after the start of the case (X.509 times have
// a resolution of one second: the certificate is valid up to and including the last whole second before that instant)
func (e *c16Env) notAfterIn(ms int) time.Time {
	na := e.origin.Add(time.Duration(ms) * time.Millisecond).Truncate(time.Second)
	e.expiries = append(e.expiries, c16Expiry{modelMs: ms, notAfter: na})

	return na
}

// onSchedule: an operation the model places atMs milliseconds after the start of the case ran from t0 to t1. Was it, for
// every certificate that runs out during the case, on the side of the expiry the model has it on (the model: valid while
// now <= NotAfter; x509: expired when now.After(NotAfter))?
func (e *c16Env) onSchedule(atMs int, t0, t1 time.Time) bool {
	for _, x := range e.expiries {
		if atMs <= x.modelMs {
			if t1.After(x.notAfter) {
				return false
			}
		} else if !t0.After(x.notAfter) {
			return false
		}
	}

	return true
}

type c16CA struct {
	key       *ecdsa.PrivateKey
	cert      *x509.Certificate
	der       []byte
	expiresMs int
}

func c16NewEnv(c map[string]any) (*c16Env, error) {
	dir, err := os.MkdirTemp("", "c16-")
	if err != nil {
		return nil, err
	}

	env := &c16Env{dir: dir, auto: map[string]int{}, cas: map[int]*c16CA{}, certs: map[string]int{}, serial: 1000,
		origin: time.Now()}

	for pid, kd := range getArr(c, "keys") {
		k, err := c16Key(getStr(obj(kd), "t"), getInt(obj(kd), "n"))
		if err != nil {
			return nil, err
		}

		env.keys = append(env.keys, k)
		env.auto[c16AutoKid(k.Public())] = pid
	}

	return env, nil
}

func (e *c16Env) close() { _ = os.RemoveAll(e.dir) }

func (e *c16Env) canonKid(kid string) string {
	if pid, ok := e.auto[kid]; ok {
		return fmt.Sprintf("auto:%d", pid)
	}

	return kid
}

func (e *c16Env) pidOf(pub crypto.PublicKey) int {
	for pid, k := range e.keys {
		if eq, ok := k.Public().(interface{ Equal(crypto.PublicKey) bool }); ok && eq.Equal(pub) {
			return pid
		}
	}

	return -1
}

func (e *c16Env) remember(der []byte, cid int) {
	sum := sha1.Sum(der) //nolint:gosec
	e.certs[hex.EncodeToString(sum[:])] = cid
}

func (e *c16Env) cidOf(der []byte) int {
	sum := sha1.Sum(der) //nolint:gosec
	if cid, ok := e.certs[hex.EncodeToString(sum[:])]; ok {
		return cid
	}

	return -1
}

// ca returns certificate authority number n of the case; its certificate has the id 900+n. expiresMs > 0 (looked at
// when the authority is created, i.e. at its first use in the case): its certificate runs out that many milliseconds
// after the start of the case
func (e *c16Env) ca(n int, expiresMs int) (*c16CA, error) {
	if ca, ok := e.cas[n]; ok {
		if expiresMs > 0 && ca.expiresMs != expiresMs {
			return nil, fmt.Errorf("certificate authority %d of the case exists already with another validity period", n)
		}

		return ca, nil
	}

	key, err := ecdsa.GenerateKey(elliptic.P256(), rand.Reader)
	if err != nil {
		return nil, err
	}

	e.serial++

	tpl := &x509.Certificate{
		SerialNumber:          big.NewInt(e.serial),
		Subject:               pkix.Name{CommonName: fmt.Sprintf("verif ca %d", n)},
		NotBefore:             time.Now().Add(-time.Hour),
		NotAfter:              time.Now().Add(48 * time.Hour),
		KeyUsage:              x509.KeyUsageCertSign | x509.KeyUsageCRLSign,
		BasicConstraintsValid: true,
		IsCA:                  true,
	}

	if expiresMs > 0 {
		tpl.NotAfter = e.notAfterIn(expiresMs)
	}

	der, err := x509.CreateCertificate(rand.Reader, tpl, tpl, key.Public(), key)
	if err != nil {
		return nil, err
	}

	cert, err := x509.ParseCertificate(der)
	if err != nil {
		return nil, err
	}

	ca := &c16CA{key: key, cert: cert, der: der, expiresMs: expiresMs}
	e.cas[n] = ca
	e.remember(der, 900+n)

	return ca, nil
}

// algOf observes what the key store says about one key of the case: whether it supports it for JOSE, and which
// signature algorithm it names for it (a panic is reported as such)
func (e *c16Env) algOf(pid int) (res any) {
	if pid < 0 || pid >= len(e.keys) {
		return map[string]any{"error": "no such key"}
	}

	ks, err := keystore.NewKeyStoreFromKey(e.keys[pid])
	if err != nil || len(ks.Entries()) != 1 {
		return map[string]any{"error": "no key store from key"}
	}

	entry := ks.Entries()[0]
	out := map[string]any{"supported": entry.CheckJOSESupport() == nil}

	defer func() {
		if r := recover(); r != nil {
			out["alg"] = "panic"
			res = out
		}
	}()

	out["alg"] = string(entry.JOSEAlgorithm())

	return out
}

// pemFile renders a store specification: {"raw": "empty"|"garbage"|"unsupported"} or {"blocks":[...]}
func (e *c16Env) pemFile(store map[string]any, password string) ([]byte, error) {
	switch getStr(store, "raw") {
	case "empty":
		return []byte{}, nil
	case "garbage":
		return []byte("this is not a PEM file\n"), nil
	case "unsupported":
		return pem.EncodeToMemory(&pem.Block{Type: "PUBLIC KEY", Bytes: []byte{1, 2, 3}}), nil
	}

	blocks := getArr(store, "blocks")

	// certificate authorities first, so that leaves can be issued
	for _, b := range blocks {
		bm := obj(b)
		if getStr(bm, "t") == "ca" {
			expires := 0
			if v, ok := bm["expires_ms"]; ok && v != nil {
				expires = getInt(bm, "expires_ms")
			}

			if _, err := e.ca(getInt(bm, "ca"), expires); err != nil {
				return nil, err
			}
		}
	}

	var buf bytes.Buffer

	for _, b := range blocks {
		bm := obj(b)

		switch getStr(bm, "t") {
		case "key":
			key := e.keys[getInt(bm, "k")]
			blk := &pem.Block{}

			if xkid := getStr(bm, "xkid"); xkid != "" {
				blk.Headers = map[string]string{"X-Key-ID": xkid}
			}

			var err error

			switch getStr(bm, "fmt") {
			case "pkcs1":
				rk, ok := key.(*rsa.PrivateKey)
				if !ok {
					return nil, errors.New("pkcs1 needs an RSA key")
				}

				blk.Type, blk.Bytes = "RSA PRIVATE KEY", x509.MarshalPKCS1PrivateKey(rk)
			case "sec1":
				ek, ok := key.(*ecdsa.PrivateKey)
				if !ok {
					return nil, errors.New("sec1 needs an EC key")
				}

				blk.Type = "EC PRIVATE KEY"
				blk.Bytes, err = x509.MarshalECPrivateKey(ek)
			case "enc":
				blk.Type = "ENCRYPTED PRIVATE KEY"
				blk.Bytes, err = pkcs8.MarshalPrivateKey(key, []byte(password), nil)
			default:
				blk.Type = "PRIVATE KEY"
				blk.Bytes, err = x509.MarshalPKCS8PrivateKey(key)
			}

			if err != nil {
				return nil, err
			}

			if err = pem.Encode(&buf, blk); err != nil {
				return nil, err
			}
		case "cert":
			key := e.keys[getInt(bm, "k")]
			e.serial++

			tpl := &x509.Certificate{
				SerialNumber: big.NewInt(e.serial),
				Subject:      pkix.Name{CommonName: fmt.Sprintf("verif leaf %d", getInt(bm, "cid"))},
				NotBefore:    time.Now().Add(-time.Hour),
				NotAfter:     time.Now().Add(24 * time.Hour),
				KeyUsage:     x509.KeyUsageDigitalSignature,
			}

			if getStr(bm, "usage") == "enc" {
				tpl.KeyUsage = x509.KeyUsageKeyEncipherment
			}

			if getBool(bm, "expired") {
				tpl.NotBefore = time.Date(2001, 1, 1, 0, 0, 0, 0, time.UTC)
				tpl.NotAfter = time.Date(2002, 1, 1, 0, 0, 0, 0, time.UTC)
			}

			if v, ok := bm["expires_ms"]; ok && v != nil {
				// runs out while the case runs (also when the block is rendered again for a reload after that instant)
				tpl.NotAfter = e.notAfterIn(getInt(bm, "expires_ms"))
			}

			if ski := getStr(bm, "ski"); ski != "" {
				raw, err := hex.DecodeString(ski)
				if err != nil {
					return nil, err
				}

				tpl.SubjectKeyId = raw
			}

			var (
				der []byte
				err error
			)

			if _, hasCA := bm["ca"]; hasCA && bm["ca"] != nil {
				ca, cerr := e.ca(getInt(bm, "ca"), 0)
				if cerr != nil {
					return nil, cerr
				}

				der, err = x509.CreateCertificate(rand.Reader, tpl, ca.cert, key.Public(), ca.key)
			} else {
				der, err = x509.CreateCertificate(rand.Reader, tpl, tpl, key.Public(), key)
			}

			if err != nil {
				return nil, err
			}

			e.remember(der, getInt(bm, "cid"))

			if err = pem.Encode(&buf, &pem.Block{Type: "CERTIFICATE", Bytes: der}); err != nil {
				return nil, err
			}
		case "ca":
			ca, err := e.ca(getInt(bm, "ca"), 0)
			if err != nil {
				return nil, err
			}

			if err = pem.Encode(&buf, &pem.Block{Type: "CERTIFICATE", Bytes: ca.der}); err != nil {
				return nil, err
			}
		default:
			return nil, fmt.Errorf("unknown block type %q", getStr(bm, "t"))
		}
	}

	return buf.Bytes(), nil
}

// writeAtomically replaces the file in one step, so that a concurrent load never sees a partial file
func c16WriteAtomically(path string, data []byte) error {
	tmp, err := os.CreateTemp(filepath.Dir(path), "tmp-*")
	if err != nil {
		return err
	}

	if _, err = tmp.Write(data); err != nil {
		_ = tmp.Close()

		return err
	}

	if err = tmp.Close(); err != nil {
		return err
	}

	return os.Rename(tmp.Name(), path)
}

// ---------------------------------------------------------------------------------------------------------------
// creation context

type c16Watcher struct {
	mu        sync.Mutex
	listeners map[string][]watcher.ChangeListener
}

func (w *c16Watcher) Add(path string, cl watcher.ChangeListener) error {
	w.mu.Lock()
	defer w.mu.Unlock()

	w.listeners[path] = append(w.listeners[path], cl)

	return nil
}

func (w *c16Watcher) get(path string) []watcher.ChangeListener {
	w.mu.Lock()
	defer w.mu.Unlock()

	return append([]watcher.ChangeListener{}, w.listeners[path]...)
}

type c16Observer struct{ n atomic.Int32 }

func (o *c16Observer) Add(certificate.Supplier) { o.n.Add(1) }
func (o *c16Observer) Start() error             { return nil }

type c16Creation struct {
	w   watcher.Watcher
	khr keyholder.Registry
	obs *c16Observer
}

func (c *c16Creation) Watcher() watcher.Watcher                  { return c.w }
func (c *c16Creation) KeyHolderRegistry() keyholder.Registry     { return c.khr }
func (c *c16Creation) CertificateObserver() certificate.Observer { return c.obs }

type c16Holder struct {
	fin        finalizers.Finalizer
	path       string
	password   string
	headerName string
	scheme     string
}

// c16Issued: a token the finalizer handed out before, with the operation that received it first and the clock
// readings around that call (a token handed out again comes from the cache: every signature draws a fresh jti)
type c16Issued struct {
	op     int
	t0, t1 time.Time
}

type c16World struct {
	cch     cache.Cache // the process-wide cache of the case (real in-memory cache), nil: no cache in the context
	issued  map[string]c16Issued
	env     *c16Env
	rec     *c16Watcher
	cc      *c16Creation
	holders []*c16Holder // nil entry: creation failed
	ep      *c16Endpoint
	base    string
	client  *http.Client
	stopW   func()
}

func c16DurationString(ns int64) string { return fmt.Sprintf("%dns", ns) }

func c16FinalizerConfig(h map[string]any, path string) map[string]any {
	signer := map[string]any{"key_store": map[string]any{"path": path}}

	if pw := getStr(h, "password"); pw != "" {
		signer["key_store"].(map[string]any)["password"] = pw //nolint:forcetypeassert
	}

	if name := getStr(h, "name"); name != "" {
		signer["name"] = name
	}

	if kid := getStr(h, "key_id"); kid != "" {
		signer["key_id"] = kid
	}

	conf := map[string]any{"signer": signer}

	if v, ok := h["ttl_ns"]; ok && v != nil {
		conf["ttl"] = c16DurationString(int64(getInt(h, "ttl_ns")))
	}

	if v, ok := h["claims_tpl"]; ok && v != nil {
		conf["claims"] = getStr(h, "claims_tpl")
	}

	if v, ok := h["header"]; ok && v != nil {
		hc := map[string]any{"name": getStr(obj(v), "name")}
		if s, has := obj(v)["scheme"]; has && s != nil {
			hc["scheme"] = getStr(obj(v), "scheme")
		}

		conf["header"] = hc
	}

	return conf
}

// c16Create: should the factory panic (it did for an empty key store or an unsupported key size before these became
// errors) this counts as a rejected configuration
func c16Create(cc *c16Creation, id string, conf map[string]any) (fin finalizers.Finalizer, err error) {
	defer func() {
		if r := recover(); r != nil {
			fin, err = nil, fmt.Errorf("panic: %v", r)
		}
	}()

	return finalizers.CreatePrototype(cc, id, "jwt", conf)
}

func c16NewWorld(c map[string]any, realWatcher bool) (*c16World, []any, error) {
	env, err := c16NewEnv(c)
	if err != nil {
		return nil, nil, err
	}

	w := &c16World{env: env, rec: &c16Watcher{listeners: map[string][]watcher.ChangeListener{}},
		issued: map[string]c16Issued{}}

	if v, ok := c["cache"]; ok && v != nil {
		// never started: no janitor goroutine is needed, Get refuses expired items itself
		if w.cch, err = memory.NewCache(nil, nil, nil); err != nil {
			env.close()

			return nil, nil, err
		}
	}
	w.cc = &c16Creation{w: w.rec, khr: keyholder.VerifC16NewRegistry(), obs: &c16Observer{}}

	if realWatcher {
		rw, stop, werr := watcher.VerifC16NewWatcher(zerolog.Nop())
		if werr != nil {
			env.close()

			return nil, nil, werr
		}

		w.cc.w = rw
		w.stopW = stop
	}

	created := []any{}

	for i, hd := range getArr(c, "holders") {
		h := obj(hd)
		path := filepath.Join(env.dir, fmt.Sprintf("keystore-%d.pem", i))

		data, perr := env.pemFile(obj(h["store"]), getStr(h, "password"))
		if perr != nil {
			w.close()

			return nil, nil, perr
		}

		if err = c16WriteAtomically(path, data); err != nil {
			w.close()

			return nil, nil, err
		}

		fin, ferr := c16Create(w.cc, getStr(h, "id"), c16FinalizerConfig(h, path))
		if ferr != nil || fin == nil {
			w.holders = append(w.holders, nil)
			created = append(created, "fail")

			continue
		}

		holder := &c16Holder{fin: fin, path: path, password: getStr(h, "password"), headerName: "Authorization",
			scheme: "Bearer"}

		if v, ok := h["header"]; ok && v != nil {
			holder.headerName = getStr(obj(v), "name")
			holder.scheme = getStr(obj(v), "scheme")
		}

		w.holders = append(w.holders, holder)
		created = append(created, "ok")
	}

	ep, err := c16ManagementEndpoint()
	if err != nil {
		w.close()

		return nil, nil, err
	}

	ep.reg.set(w.cc.khr)
	w.ep = ep
	w.base = ep.base
	w.client = ep.client

	return w, created, nil
}

func (w *c16World) close() {
	if w.ep != nil {
		w.ep.reg.set(keyholder.VerifC16NewRegistry())
	}

	if w.stopW != nil {
		w.stopW()
	}

	w.env.close()
}

// The real management service runs once per process on a kernel chosen loopback port and serves the key holder
// registry of the case at hand (one listener and one kept-alive connection per process instead of one per case: the
// checks of all properties share the machine's ephemeral ports). Should no port be available at all, the same handler
// chain is called in-process.

type c16SwitchRegistry struct {
	mu  sync.RWMutex
	cur keyholder.Registry
}

func (r *c16SwitchRegistry) set(reg keyholder.Registry) {
	r.mu.Lock()
	defer r.mu.Unlock()

	r.cur = reg
}

func (r *c16SwitchRegistry) get() keyholder.Registry {
	r.mu.RLock()
	defer r.mu.RUnlock()

	return r.cur
}

func (r *c16SwitchRegistry) AddKeyHolder(kh keyholder.KeyHolder) { r.get().AddKeyHolder(kh) }
func (r *c16SwitchRegistry) Keys() []jose.JSONWebKey             { return r.get().Keys() }

type c16Endpoint struct {
	reg       *c16SwitchRegistry
	base      string
	client    *http.Client
	transport string
}

type c16InProcess struct{ h http.Handler }

func (t c16InProcess) RoundTrip(req *http.Request) (*http.Response, error) {
	rec := httptest.NewRecorder()
	t.h.ServeHTTP(rec, req)

	return rec.Result(), nil
}

var (
	c16EndpointOnce sync.Once
	c16EndpointVal  *c16Endpoint
)

func c16ManagementEndpoint() (*c16Endpoint, error) {
	c16EndpointOnce.Do(func() {
		conf := &config.Configuration{}
		conf.Serve.Management.Timeout.Read = 30 * time.Second
		conf.Serve.Management.Timeout.Write = 30 * time.Second
		conf.Serve.Management.Timeout.Idle = 10 * time.Minute
		conf.Serve.Management.BufferLimit.Read = 64 * 1024
		conf.Serve.Management.BufferLimit.Write = 64 * 1024

		ep := &c16Endpoint{reg: &c16SwitchRegistry{cur: keyholder.VerifC16NewRegistry()}}
		srv := management.VerifC16NewService(conf, zerolog.Nop(), ep.reg)

		var (
			ln  net.Listener
			err error
		)

		err = errors.New("in-process transport requested")

		for attempt := 0; attempt < 30 && os.Getenv("VERIF_C16_INPROCESS") == ""; attempt++ {
			if ln, err = net.Listen("tcp", "127.0.0.1:0"); err == nil {
				break
			}

			time.Sleep(100 * time.Millisecond)
		}

		if err == nil {
			go func() { _ = srv.Serve(ln) }()

			ep.base = "http://" + ln.Addr().String()
			ep.transport = "tcp"
			ep.client = &http.Client{Timeout: 30 * time.Second, Transport: &http.Transport{
				MaxIdleConns: 16, MaxIdleConnsPerHost: 16, IdleConnTimeout: 10 * time.Minute,
			}}
		} else {
			ep.base = "http://management.invalid"
			ep.transport = "in-process"
			ep.client = &http.Client{Transport: c16InProcess{h: srv.Handler}}
		}

		c16EndpointVal = ep
	})

	return c16EndpointVal, nil
}

// ---------------------------------------------------------------------------------------------------------------
// observations

var c16AllAlgs = []jose.SignatureAlgorithm{
	jose.RS256, jose.RS384, jose.RS512, jose.PS256, jose.PS384, jose.PS512, jose.ES256, jose.ES384, jose.ES512,
	jose.EdDSA, jose.HS256, jose.HS384, jose.HS512,
}

var c16UUID = regexp.MustCompile(`^[0-9a-f]{8}-[0-9a-f]{4}-[0-9a-f]{4}-[0-9a-f]{4}-[0-9a-f]{12}$`)

var c16PrivateMembers = map[string]bool{"d": true, "p": true, "q": true, "dp": true, "dq": true, "qi": true,
	"oth": true, "k": true}

type c16JWKS struct {
	status int
	ctype  string
	body   []byte
	set    jose.JSONWebKeySet
	raw    []map[string]json.RawMessage
	err    string
}

func (w *c16World) fetchJWKS() *c16JWKS {
	res := &c16JWKS{}

	resp, err := w.client.Get(w.base + management.EndpointJWKS)
	if err != nil {
		res.err = "get: " + err.Error()

		return res
	}

	defer resp.Body.Close()

	res.status = resp.StatusCode
	res.ctype = resp.Header.Get("Content-Type")

	res.body, err = io.ReadAll(resp.Body)
	if err != nil {
		res.err = "read: " + err.Error()

		return res
	}

	var doc struct {
		Keys []map[string]json.RawMessage `json:"keys"`
	}

	if err = json.Unmarshal(res.body, &doc); err != nil {
		res.err = "json: " + err.Error()

		return res
	}

	res.raw = doc.Keys

	if err = json.Unmarshal(res.body, &res.set); err != nil {
		res.err = "jwks: " + err.Error()
	}

	return res
}

func (w *c16World) canonJWKS(j *c16JWKS) any {
	if j.err != "" {
		return map[string]any{"error": j.err, "status": j.status}
	}

	keys := []any{}

	for i, raw := range j.raw {
		members := []string{}
		private := false

		for name := range raw {
			members = append(members, name)
			if c16PrivateMembers[name] {
				private = true
			}
		}

		sort.Strings(members)

		str := func(name string) string {
			var s string
			_ = json.Unmarshal(raw[name], &s)

			return s
		}

		entry := map[string]any{
			"kid": w.env.canonKid(str("kid")), "alg": str("alg"), "use": str("use"), "kty": str("kty"),
			"members": members, "private": private, "pid": -1, "x5c": []any{},
		}

		if i < len(j.set.Keys) {
			k := j.set.Keys[i]
			entry["pid"] = w.env.pidOf(k.Key)
			entry["public_type"] = k.IsPublic()

			cids := []any{}
			for _, cert := range k.Certificates {
				cids = append(cids, w.env.cidOf(cert.Raw))
			}

			entry["x5c"] = cids
		}

		keys = append(keys, entry)
	}

	return map[string]any{"status": j.status, "ctype": j.ctype, "keys": keys}
}

func c16CanonJSON(v any) string {
	var buf bytes.Buffer

	enc := json.NewEncoder(&buf)
	enc.SetEscapeHTML(false)
	_ = enc.Encode(v) // maps are written with sorted keys

	return strings.TrimSpace(buf.String())
}

type c16Token struct {
	raw      string
	hdr      map[string]any
	kid      string
	alg      string
	signedBy int
	res      map[string]any
}

// analyse a compact JWS: protected header, claims (time claims relative to the call window [t0, t1]), who signed
func (w *c16World) analyseToken(raw string, t0, t1 time.Time, jwks *c16JWKS) *c16Token {
	tk := &c16Token{raw: raw, signedBy: -1, res: map[string]any{}}
	parts := strings.Split(raw, ".")

	if len(parts) != 3 {
		tk.res["malformed"] = "not a compact JWS"

		return tk
	}

	hb, err1 := base64.RawURLEncoding.DecodeString(parts[0])
	pb, err2 := base64.RawURLEncoding.DecodeString(parts[1])

	if err1 != nil || err2 != nil {
		tk.res["malformed"] = "base64"

		return tk
	}

	dec := json.NewDecoder(bytes.NewReader(hb))
	dec.UseNumber()

	if err := dec.Decode(&tk.hdr); err != nil {
		tk.res["malformed"] = "header json"

		return tk
	}

	claims := map[string]any{}
	dec = json.NewDecoder(bytes.NewReader(pb))
	dec.UseNumber()

	if err := dec.Decode(&claims); err != nil {
		tk.res["malformed"] = "claims json"

		return tk
	}

	tk.kid, _ = tk.hdr["kid"].(string)
	tk.alg, _ = tk.hdr["alg"].(string)
	typ, _ := tk.hdr["typ"].(string)
	extra := []string{}

	for name := range tk.hdr {
		if name != "kid" && name != "alg" && name != "typ" {
			extra = append(extra, name)
		}
	}

	sort.Strings(extra)

	tk.res["hdr"] = map[string]any{"kid": w.env.canonKid(tk.kid), "alg": tk.alg, "typ": typ, "extra": extra}

	// claims
	num := func(name string) (int64, bool) {
		n, ok := claims[name].(json.Number)
		if !ok {
			return 0, false
		}

		i, err := n.Int64()

		return i, err == nil
	}

	iat, iatOK := num("iat")
	names := make([]string, 0, len(claims))

	for name := range claims {
		names = append(names, name)
	}

	sort.Strings(names)

	out := []any{}

	for _, name := range names {
		var v any

		switch name {
		case "iat":
			switch {
			case !iatOK:
				v = "not an integer: " + c16CanonJSON(claims[name])
			case t1.Before(t0) || (iat >= t0.Unix() && iat <= t1.Unix()):
				v = "issue time"
			default:
				v = fmt.Sprintf("outside the call window by %d s", iat-t0.Unix())
			}
		case "nbf":
			if n, ok := num("nbf"); ok && iatOK {
				v = map[string]any{"minus_iat": n - iat}
			} else {
				v = "not an integer: " + c16CanonJSON(claims[name])
			}
		case "exp":
			if n, ok := num("exp"); ok && iatOK {
				v = map[string]any{"minus_iat": n - iat}
			} else {
				v = "not an integer: " + c16CanonJSON(claims[name])
			}
		case "jti":
			if s, ok := claims[name].(string); ok && c16UUID.MatchString(s) {
				v = "uuid"
			} else {
				v = "not a uuid: " + c16CanonJSON(claims[name])
			}
		default:
			v = map[string]any{"json": claims[name]}
		}

		out = append(out, []any{name, v})
	}

	tk.res["claims"] = out

	// signature
	parsed, err := jwt.ParseSigned(raw, c16AllAlgs)
	if err != nil {
		tk.res["malformed"] = "go-jose: " + err.Error()

		return tk
	}

	var sink map[string]any

	for pid, k := range w.env.keys {
		if parsed.Claims(k.Public(), &sink) == nil {
			tk.signedBy = pid

			break
		}
	}

	tk.res["signed_by"] = tk.signedBy

	if jwks != nil && jwks.err == "" {
		tk.res["verify_first"] = parsed.Claims(jwks.set, &sink) == nil

		any_ := false

		for _, k := range jwks.set.Key(tk.kid) {
			if k.Algorithm == tk.alg && parsed.Claims(k.Key, &sink) == nil {
				any_ = true
			}
		}

		tk.res["verify_any"] = any_
	}

	return tk
}

func c16ErrKind(err error) string {
	switch {
	case err == nil:
		return "ok"
	case errors.Is(err, heimdall.ErrInternal):
		return "internal"
	case errors.Is(err, heimdall.ErrConfiguration):
		return "configuration"
	case errors.Is(err, heimdall.ErrArgument):
		return "argument"
	default:
		return "foreign"
	}
}

// signOnce runs the (possibly rule-level reconfigured) finalizer on a fresh real request context
func (w *c16World) signOnce(op map[string]any) (string, map[string]any, time.Time, time.Time) {
	idx := getInt(op, "h")
	if idx >= len(w.holders) || w.holders[idx] == nil {
		return "", map[string]any{"skip": "no holder"}, time.Time{}, time.Time{}
	}

	h := w.holders[idx]
	fin := h.fin

	if ov, ok := op["ov"]; ok && ov != nil {
		conf := map[string]any{}

		if v, has := obj(ov)["ttl_ns"]; has && v != nil {
			conf["ttl"] = c16DurationString(int64(getInt(obj(ov), "ttl_ns")))
		}

		if v, has := obj(ov)["claims_tpl"]; has && v != nil {
			conf["claims"] = getStr(obj(ov), "claims_tpl")
		}

		var err error

		fin, err = h.fin.WithConfig(conf)
		if err != nil {
			return "", map[string]any{"err": "override:" + c16ErrKind(err)}, time.Time{}, time.Time{}
		}
	}

	app := zerolog.Nop().WithContext(context.Background())
	if w.cch != nil {
		app = cache.WithContext(app, w.cch)
	}

	req := httptest.NewRequest(http.MethodGet, "http://heimdall.test/foo", nil)
	req = req.WithContext(app)
	rctx := requestcontext.New(req)

	var ctx heimdall.Context = rctx

	if in, ok := op["inside"]; ok && in != nil {
		// the key store of this finalizer is reloaded while Execute runs: at the first time the finalizer asks for the
		// pipeline outputs, which is the last step of the cache key calculation (the signer hash has been read, the
		// cache has not been asked yet, nothing has been signed)
		ctx = &c16HookCtx{Context: rctx, hook: func() {
			rop := map[string]any{"h": op["h"], "store": obj(in)["store"]}
			if _, rerr := w.reload(rop, false, nil); rerr != nil {
				panic(rerr)
			}
		}}
	}

	for k, v := range obj(op["outputs"]) {
		rctx.Outputs()[k] = c16Plain(v)
	}

	var sub *subject.Subject

	if s, ok := op["sub"].(string); ok {
		sub = &subject.Subject{ID: s, Attributes: map[string]any{}}

		for k, v := range obj(op["attrs"]) {
			sub.Attributes[k] = c16Plain(v)
		}
	}

	t0 := time.Now()
	err := fin.Execute(ctx, sub)
	t1 := time.Now()

	if err != nil {
		return "", map[string]any{"err": c16ErrKind(err)}, t0, t1
	}

	names := []string{}
	for name := range rctx.UpstreamHeaders() {
		names = append(names, name)
	}

	sort.Strings(names)

	res := map[string]any{"upstream_headers": names}
	values := rctx.UpstreamHeaders().Values(h.headerName)

	if len(values) != 1 {
		res["err"] = fmt.Sprintf("%d values in header %s", len(values), h.headerName)

		return "", res, t0, t1
	}

	cut := strings.LastIndex(values[0], " ")
	if cut < 0 {
		res["err"] = "header value without scheme separator"

		return "", res, t0, t1
	}

	res["scheme"] = values[0][:cut]

	return values[0][cut+1:], res, t0, t1
}

// c16HookCtx runs a hook when the pipeline outputs are asked for the first time
type c16HookCtx struct {
	heimdall.Context
	calls int
	hook  func()
}

func (c *c16HookCtx) Outputs() map[string]any {
	c.calls++
	if c.calls == 1 {
		c.hook()
	}

	return c.Context.Outputs()
}

// json.Number -> int64 / float64 so that templates and marshalling see ordinary values
func c16Plain(v any) any {
	switch t := v.(type) {
	case json.Number:
		if i, err := t.Int64(); err == nil {
			return i
		}

		f, _ := t.Float64()

		return f
	case map[string]any:
		res := map[string]any{}
		for k, x := range t {
			res[k] = c16Plain(x)
		}

		return res
	case []any:
		res := make([]any, len(t))
		for i, x := range t {
			res[i] = c16Plain(x)
		}

		return res
	default:
		return v
	}
}

func (w *c16World) reload(op map[string]any, async bool, wg *sync.WaitGroup) (string, error) {
	idx := getInt(op, "h")
	if idx >= len(w.holders) || w.holders[idx] == nil {
		return "skip", nil
	}

	h := w.holders[idx]

	// files of concurrent runs are rendered before the goroutines start (the case environment is not synchronised)
	data, rendered := op["\x00pem"].([]byte)
	if !rendered {
		var err error

		data, err = w.env.pemFile(obj(op["store"]), h.password)
		if err != nil {
			return "", err
		}
	}

	if err := c16WriteAtomically(h.path, data); err != nil {
		return "", err
	}

	for _, l := range w.rec.get(h.path) {
		fire := func() {
			defer func() { _ = recover() }() // a reload that panicked would leave the state as it was, like a failed one

			l.OnChanged(zerolog.Nop())
		}

		if async {
			wg.Add(1)

			go func() {
				defer wg.Done()

				fire()
			}()
		} else {
			fire()
		}
	}

	return "done", nil
}

// ---------------------------------------------------------------------------------------------------------------
// family "signer": sequential operations

// Cases with a cache run on the wall clock (the finalizer reads time.Now() and the in-memory cache its own clock):
//   - "tick_ms" > 0: every token creation names the tick ("at") it has to happen in: it starts no earlier than the
//     tick and must be over within the first 2/5 of it. Cache lifetimes of such cases are m ticks and a half, so an
//     entry stored in tick a is certainly alive in tick a+m and certainly gone in tick a+m+1.
//   - "tick_ms" = 0: all lifetimes of the case are either not positive or longer than twice "max_ms"; the whole case
//     must be over within "max_ms".
//
// A run that misses its schedule proves nothing and is repeated; after c16MaxRetries attempts the case is reported as
// {"timing": true} (counted by the check, not judged).
var errC16Late = errors.New("c16: the run missed its schedule")

const c16MaxRetries = 12

func c16RunSigner(c map[string]any) (any, error) {
	retries := c16MaxRetries
	if getBool(c, "expiry_clock") {
		retries = 3 // every attempt waits for the certificates of the case to run out
	}

	for range retries {
		res, err := c16RunSignerOnce(c)
		if errors.Is(err, errC16Late) {
			time.Sleep(20 * time.Millisecond)

			continue
		}

		return res, err
	}

	return map[string]any{"timing": true}, nil
}

func c16RunSignerOnce(c map[string]any) (any, error) {
	w, created, err := c16NewWorld(c, false)
	if err != nil {
		return nil, err
	}

	defer w.close()

	var (
		tick   time.Duration
		window time.Duration
		limit  time.Duration
	)

	if w.cch != nil {
		cc := obj(c["cache"])
		tick = time.Duration(getInt(cc, "tick_ms")) * time.Millisecond
		window = tick * 2 / 5
		limit = time.Duration(getInt(cc, "max_ms")) * time.Millisecond
	}

	origin := time.Now()
	results := []any{}

	// "expiry_clock": certificates of the case run out while it runs ("expires_ms" of certificate blocks). Every
	// operation names the instant the model has for it ("at_ms" since the start of the case), is not started before it,
	// and has to be over before / begin after the real expiry instants as the model has it (else the run is repeated)
	clocked := getBool(c, "expiry_clock")
	if !clocked && len(w.env.expiries) > 0 {
		return nil, errors.New("certificates with expires_ms need the expiry_clock of the case")
	}

	if clocked && !w.env.onSchedule(0, w.env.origin, time.Now()) {
		return nil, errC16Late // the key stores were not loaded before the first certificate ran out
	}

	for idx, o := range getArr(c, "ops") {
		op := obj(o)

		var opStart time.Time

		if clocked {
			if d := time.Until(w.env.origin.Add(time.Duration(getInt(op, "at_ms")) * time.Millisecond)); d > 0 {
				time.Sleep(d)
			}

			opStart = time.Now()
		}

		switch getStr(op, "op") {
		case "sign":
			var start time.Time

			if tick > 0 {
				start = origin.Add(time.Duration(getInt(op, "at")) * tick)
				if d := time.Until(start); d > 0 {
					time.Sleep(d)
				}
			}

			raw, res, t0, t1 := w.signOnce(op)

			if tick > 0 && (t0.Before(start) || t1.After(start.Add(window))) {
				return nil, errC16Late
			}

			if raw != "" {
				if w.cch != nil {
					first, seen := w.issued[raw]
					if !seen {
						first = c16Issued{op: idx, t0: t0, t1: t1}
						w.issued[raw] = first
					}

					// which operation received this very token first (itself: freshly signed), and what the clock says
					// about the hand-out: how old the token is at least, how long it is still valid at least
					res["from"] = first.op
					timing := map[string]any{"age_lower_ns": t0.Sub(first.t1).Nanoseconds(),
						"issue_window_ns": first.t1.Sub(first.t0).Nanoseconds()}
					res["timing"] = timing
					handedOut := t1
					t0, t1 = first.t0, first.t1

					if exp, ok := c16ExpOf(raw); ok {
						timing["exp_minus_now_s"] = exp - handedOut.Unix()
					}
				}

				jwks := w.fetchJWKS()
				for k, v := range w.analyseToken(raw, t0, t1, jwks).res {
					res[k] = v
				}
			}

			results = append(results, res)
		case "jwks":
			results = append(results, w.canonJWKS(w.fetchJWKS()))
		case "alg":
			results = append(results, w.env.algOf(getInt(op, "k")))
		case "reload":
			r, rerr := w.reload(op, false, nil)
			if rerr != nil {
				return nil, rerr
			}

			results = append(results, r)
		default:
			return nil, fmt.Errorf("unknown op %q", getStr(op, "op"))
		}

		if clocked && !w.env.onSchedule(getInt(op, "at_ms"), opStart, time.Now()) {
			return nil, errC16Late
		}
	}

	if w.cch != nil && tick == 0 && limit > 0 && time.Since(origin) > limit {
		return nil, errC16Late
	}

	return map[string]any{"created": created, "ops": results, "observed_suppliers": int(w.cc.obs.n.Load()),
		"transport": w.ep.transport}, nil
}

// the exp claim of a compact JWS (not verified here)
func c16ExpOf(raw string) (int64, bool) {
	parts := strings.Split(raw, ".")
	if len(parts) != 3 {
		return 0, false
	}

	pb, err := base64.RawURLEncoding.DecodeString(parts[1])
	if err != nil {
		return 0, false
	}

	var claims struct {
		Exp json.Number `json:"exp"`
	}

	dec := json.NewDecoder(bytes.NewReader(pb))
	dec.UseNumber()

	if dec.Decode(&claims) != nil {
		return 0, false
	}

	if i, err := claims.Exp.Int64(); err == nil {
		return i, true
	}

	f, err := claims.Exp.Float64()

	return int64(f), err == nil
}

// ---------------------------------------------------------------------------------------------------------------
// family "signerconc": concurrent token creation, JWKS reads and reloads

func c16RunSignerConc(c map[string]any) (any, error) {
	w, created, err := c16NewWorld(c, false)
	if err != nil {
		return nil, err
	}

	defer w.close()

	type obs struct {
		S, E int64
		Res  any
	}

	var (
		clock atomic.Int64
		wg    sync.WaitGroup
		lwg   sync.WaitGroup
		start = make(chan struct{})
	)

	signers := getArr(c, "signers")
	readers := getArr(c, "readers")
	reloaders := getArr(c, "reloaders")
	sres := make([][]obs, len(signers))
	rres := make([][]obs, len(readers))
	lres := make([][]obs, len(reloaders))
	herr := make(chan error, len(reloaders)+1)

	for _, r := range reloaders {
		ops, _ := r.([]any)
		for _, o := range ops {
			op := obj(o)
			if idx := getInt(op, "h"); idx < len(w.holders) && w.holders[idx] != nil {
				data, perr := w.env.pemFile(obj(op["store"]), w.holders[idx].password)
				if perr != nil {
					return nil, perr
				}

				op["\x00pem"] = data
			}
		}
	}

	zzsync.Enable(true, uint64(getInt(c, "seed")))
	defer zzsync.Enable(false, 0)

	for i, s := range signers {
		ops, _ := s.([]any)
		sres[i] = make([]obs, len(ops))

		wg.Add(1)

		go func() {
			defer wg.Done()
			<-start

			for k, o := range ops {
				st := clock.Add(1)
				raw, res, t0, t1 := w.signOnce(obj(o))
				en := clock.Add(1)

				if raw != "" {
					for key, v := range w.analyseToken(raw, t0, t1, nil).res {
						res[key] = v
					}
				}

				sres[i][k] = obs{st, en, res}
			}
		}()
	}

	for i, r := range readers {
		n := getInt(obj(r), "n")
		rres[i] = make([]obs, n)

		wg.Add(1)

		go func() {
			defer wg.Done()
			<-start

			for k := 0; k < n; k++ {
				st := clock.Add(1)
				j := w.fetchJWKS()
				en := clock.Add(1)
				rres[i][k] = obs{st, en, w.canonJWKS(j)}
			}
		}()
	}

	for i, r := range reloaders {
		ops, _ := r.([]any)
		lres[i] = make([]obs, len(ops))

		wg.Add(1)

		go func() {
			defer wg.Done()
			<-start

			for k, o := range ops {
				st := clock.Add(1)
				res, rerr := w.reload(obj(o), true, &lwg)
				en := clock.Add(1)

				if rerr != nil {
					herr <- rerr

					return
				}

				lres[i][k] = obs{st, en, res}
			}
		}()
	}

	close(start)
	wg.Wait()
	lwg.Wait()

	select {
	case e := <-herr:
		return nil, e
	default:
	}

	zzsync.Enable(false, 0)

	// quiescent: one more synchronous reload per holder with its final store, then the state is determined
	final := []any{}

	for _, o := range getArr(c, "final") {
		op := obj(o)

		switch getStr(op, "op") {
		case "reload":
			r, rerr := w.reload(op, false, nil)
			if rerr != nil {
				return nil, rerr
			}

			final = append(final, r)
		case "sign":
			raw, res, t0, t1 := w.signOnce(op)
			if raw != "" {
				for k, v := range w.analyseToken(raw, t0, t1, w.fetchJWKS()).res {
					res[k] = v
				}
			}

			final = append(final, res)
		case "jwks":
			final = append(final, w.canonJWKS(w.fetchJWKS()))
		}
	}

	conv := func(rs [][]obs) []any {
		out := make([]any, len(rs))

		for i, l := range rs {
			lo := make([]any, len(l))
			for k, r := range l {
				lo[k] = map[string]any{"s": r.S, "e": r.E, "res": r.Res}
			}

			out[i] = lo
		}

		return out
	}

	return map[string]any{"created": created, "signers": conv(sres), "readers": conv(rres),
		"reloaders": conv(lres), "final": final, "transport": w.ep.transport}, nil
}

// ---------------------------------------------------------------------------------------------------------------
// family "signerwatch": the signer registered with the real fsnotify watcher; the key store file is rewritten in
// place with one write call and the JWKS endpoint is polled until it shows the expected key ids

func c16RunSignerWatch(c map[string]any) (any, error) {
	w, created, err := c16NewWorld(c, true)
	if err != nil {
		return nil, err
	}

	defer w.close()

	observe := func(ops []any) []any {
		res := []any{}

		for _, o := range ops {
			op := obj(o)
			if getStr(op, "op") == "sign" {
				raw, r, t0, t1 := w.signOnce(op)
				if raw != "" {
					for k, v := range w.analyseToken(raw, t0, t1, w.fetchJWKS()).res {
						r[k] = v
					}
				}

				res = append(res, r)
			} else {
				res = append(res, w.canonJWKS(w.fetchJWKS()))
			}
		}

		return res
	}

	out := map[string]any{"created": created, "before": observe(getArr(c, "before"))}

	if len(w.holders) == 0 || w.holders[0] == nil {
		return out, nil
	}

	h := w.holders[0]

	old, err := os.ReadFile(h.path)
	if err != nil {
		return nil, err
	}

	data, err := w.env.pemFile(obj(c["next"]), h.password)
	if err != nil {
		return nil, err
	}

	for len(data) < len(old) {
		data = append(data, '\n') // trailing white space is ignored by the PEM reader; the file never shrinks
	}

	f, err := os.OpenFile(h.path, os.O_WRONLY, 0o600)
	if err != nil {
		return nil, err
	}

	if _, err = f.Write(data); err != nil {
		_ = f.Close()

		return nil, err
	}

	if err = f.Close(); err != nil {
		return nil, err
	}

	want := c16CanonJSON(getStrs(c, "expect_kids"))
	deadline := time.Now().Add(time.Duration(getInt(c, "wait_ms")) * time.Millisecond)
	converged := false

	for !converged && time.Now().Before(deadline) {
		j := w.fetchJWKS()
		kids := []string{}

		for _, k := range j.set.Keys {
			kids = append(kids, w.env.canonKid(k.KeyID))
		}

		if j.err == "" && c16CanonJSON(kids) == want {
			converged = true
		} else {
			time.Sleep(3 * time.Millisecond)
		}
	}

	out["converged"] = converged
	if converged {
		out["after"] = observe(getArr(c, "after"))
	}

	return out, nil
}
