package main

// Family "authn" (property C04): the real authenticators of /repo (created by the real mechanism factory from
// mechanism definitions), chained by the real rule factory into a rule whose pipeline ends with a real header
// finalizer, executed on requests parsed by the real request context. JWKS, introspection and identity endpoints are
// local servers on loopback ports chosen by the kernel; JWTs are signed with keys created at start-up.
// A wrapper around the mechanism factory records which authenticators are executed and what each returns.

import (
	"context"
	"crypto/ecdsa"
	"crypto/ed25519"
	"crypto/elliptic"
	"crypto/rand"
	"crypto/rsa"
	"encoding/json"
	"errors"
	"fmt"
	"io"
	"net/http"
	"net/http/httptest"
	"net/url"
	"strings"
	"sync"
	"time"

	"github.com/go-jose/go-jose/v4"
	"github.com/rs/zerolog"

	"github.com/dadrus/heimdall/internal/cache"
	"github.com/dadrus/heimdall/internal/cache/memory"
	"github.com/dadrus/heimdall/internal/config"
	"github.com/dadrus/heimdall/internal/handler/requestcontext"
	"github.com/dadrus/heimdall/internal/heimdall"
	"github.com/dadrus/heimdall/internal/otel/metrics/certificate"
	"github.com/dadrus/heimdall/internal/rules"
	rconfig "github.com/dadrus/heimdall/internal/rules/config"
	"github.com/dadrus/heimdall/internal/rules/mechanisms"
	"github.com/dadrus/heimdall/internal/rules/mechanisms/authenticators"
	"github.com/dadrus/heimdall/internal/rules/mechanisms/authorizers"
	"github.com/dadrus/heimdall/internal/rules/mechanisms/contenttype"
	"github.com/dadrus/heimdall/internal/rules/mechanisms/contextualizers"
	"github.com/dadrus/heimdall/internal/rules/mechanisms/errorhandlers"
	"github.com/dadrus/heimdall/internal/rules/mechanisms/finalizers"
	"github.com/dadrus/heimdall/internal/rules/mechanisms/subject"
	"github.com/dadrus/heimdall/internal/watcher"
)

func init() { families["authn"] = c04Run }

// ---------------------------------------------------------------------------------------------------------------
// local infrastructure

type c04Infra struct {
	jwks, intro, ident, meta *httptest.Server
	token                    *httptest.Server
	dead                     string
	keys                     map[string]*ecdsa.PrivateKey
	rsaKey                   *rsa.PrivateKey
	edKey                    ed25519.PrivateKey
	hmacKey                  []byte

	mu       sync.Mutex
	introReg map[string]map[string]any
	identReg map[string]map[string]any
}

var (
	c04Once  sync.Once
	c04Inf   *c04Infra
	c04Inf0  *c04Infra // the same, for helpers without access to the receiver
	c04Error error
)

func c04Sentinels() []struct {
	name string
	err  error
} {
	return []struct {
		name string
		err  error
	}{
		{"argument", heimdall.ErrArgument},
		{"authentication", heimdall.ErrAuthentication},
		{"authorization", heimdall.ErrAuthorization},
		{"communication", heimdall.ErrCommunication},
		{"timeout", heimdall.ErrCommunicationTimeout},
		{"configuration", heimdall.ErrConfiguration},
		{"internal", heimdall.ErrInternal},
		{"noRule", heimdall.ErrNoRuleFound},
	}
}

func c04Kinds(err error) []string {
	res := []string{}

	for _, s := range c04Sentinels() {
		if errors.Is(err, s.err) {
			res = append(res, s.name)
		}
	}

	return res
}

func c04Obs(sub *subject.Subject, err error) map[string]any {
	if err != nil {
		return map[string]any{"err": c04Kinds(err)}
	}

	if sub == nil {
		return map[string]any{"nil": true}
	}

	return map[string]any{"ok": sub.ID}
}

func c04Setup() (*c04Infra, error) {
	c04Once.Do(func() {
		inf := &c04Infra{keys: map[string]*ecdsa.PrivateKey{}}

		for _, name := range []string{"k1", "k2", "k3", "rogue"} {
			key, err := ecdsa.GenerateKey(elliptic.P256(), rand.Reader)
			if err != nil {
				c04Error = err

				return
			}

			inf.keys[name] = key
		}

		// keys for tokens naming other signature algorithms (none of them is published)
		var kerr error

		if inf.rsaKey, kerr = rsa.GenerateKey(rand.Reader, 2048); kerr != nil { //nolint:mnd
			c04Error = kerr

			return
		}

		if _, inf.edKey, kerr = ed25519.GenerateKey(rand.Reader); kerr != nil {
			c04Error = kerr

			return
		}

		inf.hmacKey = make([]byte, 64) //nolint:mnd
		if _, kerr = rand.Read(inf.hmacKey); kerr != nil {
			c04Error = kerr

			return
		}

		// k1, k2: ES256 keys; k3: published with a different algorithm than the one tokens are signed with.
		// k1 is the LAST key of the set, k2 the first (tokens without kid are tried against every key in turn).
		set := jose.JSONWebKeySet{Keys: []jose.JSONWebKey{
			{Key: inf.keys["k2"].Public(), KeyID: "k2", Algorithm: "ES256", Use: "sig"},
			{Key: inf.keys["k3"].Public(), KeyID: "k3", Algorithm: "ES384", Use: "sig"},
			{Key: inf.keys["k1"].Public(), KeyID: "k1", Algorithm: "ES256", Use: "sig"},
		}}

		rawSet, err := json.Marshal(set)
		if err != nil {
			c04Error = err

			return
		}

		inf.jwks = httptest.NewServer(http.HandlerFunc(func(rw http.ResponseWriter, req *http.Request) {
			switch c04Head(req.URL.Path) {
			case "/jwks/ok":
				rw.Header().Set("Content-Type", "application/json")
				rw.Write(rawSet) //nolint:errcheck
			case "/jwks/badjson":
				rw.Header().Set("Content-Type", "application/json")
				rw.Write([]byte("this is not a key set")) //nolint:errcheck
			default:
				rw.WriteHeader(http.StatusInternalServerError)
			}
		}))

		answer := func(rw http.ResponseWriter, spec map[string]any) {
			status := getInt(spec, "status")
			if status != 0 && status != http.StatusOK {
				rw.WriteHeader(status)

				return
			}

			if getStr(spec, "body") == "text" {
				rw.Header().Set("Content-Type", "application/json")
				rw.Write([]byte("<<this is not json>>")) //nolint:errcheck

				return
			}

			now := time.Now().Unix()
			body := map[string]any{}

			for k, v := range spec {
				switch k {
				case "status", "body":
				case "raw_exp":
					body["exp"] = v
				case "exp", "nbf", "iat":
					n, _ := v.(json.Number)
					d, _ := n.Int64()
					body[k] = now + d
				case "rawclaims", "decode":
				default:
					body[k] = v
				}
			}

			// members written exactly as given: values a well-behaved endpoint would not send (dates out of range,
			// wrong JSON types)
			c04RawClaims(body, spec)

			raw, _ := json.Marshal(body)

			rw.Header().Set("Content-Type", "application/json")
			rw.Write(raw) //nolint:errcheck
		}

		inf.intro = httptest.NewServer(http.HandlerFunc(func(rw http.ResponseWriter, req *http.Request) {
			switch c04Head(req.URL.Path) {
			case "/introspect/ok":
			case "/introspect/badjson":
				rw.Header().Set("Content-Type", "application/json")
				rw.Write([]byte("<<this is not json>>")) //nolint:errcheck

				return
			default:
				rw.WriteHeader(http.StatusInternalServerError)

				return
			}

			raw, _ := io.ReadAll(req.Body)
			form, _ := url.ParseQuery(string(raw))
			token := form.Get("token")

			inf.mu.Lock()
			spec, ok := inf.introReg[token]
			inf.mu.Unlock()

			if !ok {
				rw.Header().Set("Content-Type", "application/json")
				rw.Write([]byte(`{"active":false}`)) //nolint:errcheck

				return
			}

			answer(rw, spec)
		}))

		inf.ident = httptest.NewServer(http.HandlerFunc(func(rw http.ResponseWriter, req *http.Request) {
			switch c04Head(req.URL.Path) {
			case "/identity/ok":
			case "/identity/badjson":
				rw.Header().Set("Content-Type", "application/json")
				rw.Write([]byte("<<this is not json>>")) //nolint:errcheck

				return
			default:
				rw.WriteHeader(http.StatusInternalServerError)

				return
			}

			raw, _ := io.ReadAll(req.Body)

			inf.mu.Lock()
			spec, ok := inf.identReg[string(raw)]
			inf.mu.Unlock()

			if !ok {
				rw.WriteHeader(http.StatusUnauthorized)

				return
			}

			answer(rw, spec)
		}))

		// OAuth2 server metadata: /meta/<variant>/<kind>/<endpoint variant>
		inf.meta = httptest.NewServer(http.HandlerFunc(func(rw http.ResponseWriter, req *http.Request) {
			// whatever follows the third segment is the rendered part of a templated URL
			parts := strings.SplitN(strings.TrimPrefix(req.URL.Path, "/meta/"), "/", 4) //nolint:mnd
			if len(parts) < 3 { //nolint:mnd
				rw.WriteHeader(http.StatusNotFound)

				return
			}

			base := map[string]string{"jwks": inf.jwks.URL + "/jwks/", "introspect": inf.intro.URL + "/introspect/"}[parts[1]]
			target := base + parts[2]

			if parts[2] == "dead" {
				target = inf.dead + "/" + parts[1] + "/ok"
			}

			doc := map[string]any{"issuer": "https://metadata.example"}

			switch parts[0] {
			case "ok":
				if parts[1] == "jwks" {
					doc["jwks_uri"] = target
				} else {
					doc["introspection_endpoint"] = target
				}
			case "nouri":
			case "badjson":
				rw.Header().Set("Content-Type", "application/json")
				rw.Write([]byte("<<this is not json>>")) //nolint:errcheck

				return
			default:
				rw.WriteHeader(http.StatusInternalServerError)

				return
			}

			raw, _ := json.Marshal(doc)

			rw.Header().Set("Content-Type", "application/json")
			rw.Write(raw) //nolint:errcheck
		}))

		// the authorization server heimdall asks for a token when an endpoint demands oauth2_client_credentials:
		// /token/<variant> (see gen_authn.CC_ANSWERS)
		inf.token = httptest.NewServer(http.HandlerFunc(func(rw http.ResponseWriter, req *http.Request) {
			variant := strings.TrimPrefix(req.URL.Path, "/token/")
			doc := func(status int, v map[string]any) {
				raw, _ := json.Marshal(v)

				rw.Header().Set("Content-Type", "application/json")
				rw.WriteHeader(status)
				rw.Write(raw) //nolint:errcheck
			}

			switch {
			case variant == "ok":
				doc(http.StatusOK, map[string]any{"access_token": "heimdall-own-token", "token_type": "Bearer", "expires_in": 300})
			case strings.HasPrefix(variant, "400:"):
				doc(http.StatusBadRequest, map[string]any{
					"error": strings.TrimPrefix(variant, "400:"), "error_description": "the request of the client is refused",
				})
			case variant == "400text":
				rw.WriteHeader(http.StatusBadRequest)
				rw.Write([]byte("<<this is not json>>")) //nolint:errcheck
			case variant == "200text":
				rw.Header().Set("Content-Type", "application/json")
				rw.Write([]byte("<<this is not json>>")) //nolint:errcheck
			case strings.HasPrefix(variant, "200error:"):
				doc(http.StatusOK, map[string]any{"error": strings.TrimPrefix(variant, "200error:")})
			default:
				status := 0
				fmt.Sscanf(variant, "%d", &status) //nolint:errcheck

				if status < 200 || status > 599 { //nolint:mnd
					status = http.StatusInternalServerError
				}

				rw.WriteHeader(status)
			}
		}))

		// an address at which no HTTP server answers
		ln, err := verifListen("127.0.0.1:0")
		if err != nil {
			c04Error = err

			return
		}

		// the port stays bound (nobody else can take it while the harness runs); every connection is closed at once
		inf.dead = "http://" + ln.Addr().String()

		go func() {
			for {
				conn, err := ln.Accept()
				if err != nil {
					return
				}

				verifCloseNow(conn)
			}
		}()

		c04Inf = inf
		c04Inf0 = inf
	})

	return c04Inf, c04Error
}

// c04Head yields the first two segments of a path ("/identity/ok/s/abc" -> "/identity/ok"): the endpoints answer under
// every path below their own, so that the URL configured for them can be a template over the credential
func c04Head(path string) string {
	parts := strings.SplitN(path, "/", 4) //nolint:mnd
	if len(parts) < 3 {                   //nolint:mnd
		return path
	}

	return "/" + parts[1] + "/" + parts[2]
}

// c04Templated completes the configuration of an endpoint whose URL / headers are templates over the credential
// (generic: {{ .AuthenticationData }}) resp. over the issuer named by the token (jwt, oauth2_introspection:
// {{ .TokenIssuer }}). "utpl": where the value stands in the URL, "htpl": a header rendered from it.
func c04Templated(m map[string]any, ep map[string]any, value string) map[string]any {
	base, _ := ep["url"].(string)

	switch getStr(m, "utpl") {
	case "":
	case "path":
		ep["url"] = base + "/s/{{ " + value + " }}"
	case "mid":
		ep["url"] = base + "/s/{{ " + value + " }}/info"
	case "query":
		ep["url"] = base + "?s={{ " + value + " }}"
	case "enc":
		ep["url"] = base + "/s/{{ urlenc " + value + " }}"
	case "fn":
		ep["url"] = base + `/s/{{ atIndex 1 (splitList "." ` + value + `) }}`
	default:
		ep["url"] = base + "/unknown-utpl"
	}

	if getBool(m, "htpl") {
		ep["headers"] = map[string]any{"X-Credential-Ref": "{{ " + value + " }}"}
	}

	// the endpoint demands that heimdall authenticates itself
	switch auth := getStr(m, "auth"); {
	case auth == "":
	case auth == "api_key":
		ep["auth"] = map[string]any{"type": "api_key", "config": map[string]any{
			"in": "header", "name": "X-Heimdall-Key", "value": "k-4711",
		}}
	case auth == "basic_auth":
		ep["auth"] = map[string]any{"type": "basic_auth", "config": map[string]any{"user": "heimdall", "password": "pw"}}
	case strings.HasPrefix(auth, "cc:"):
		variant := strings.TrimPrefix(auth, "cc:")
		tokenURL := c04Inf0.token.URL + "/token/" + variant

		if variant == "dead" {
			tokenURL = c04Inf0.dead + "/token/ok"
		}

		ep["auth"] = map[string]any{"type": "oauth2_client_credentials", "config": map[string]any{
			"token_url": tokenURL, "client_id": "heimdall", "client_secret": "secret", "scopes": []any{"profiles:read"},
		}}
	default:
		ep["auth"] = map[string]any{"type": "unknown-" + auth}
	}

	return ep
}

// c04RawClaims adds the members listed under "rawclaims" ([[name, JSON text], ...]) to a JSON object, each value
// literally as written (1e300 stays 1e300)
func c04RawClaims(dst map[string]any, spec map[string]any) {
	for _, p := range c04Pairs(spec["rawclaims"]) {
		dst[p[0]] = json.RawMessage(p[1])
	}
}

func (inf *c04Infra) mint(desc map[string]any) (string, error) {
	keyName := getStr(desc, "key")

	key, ok := inf.keys[keyName]
	if !ok {
		return "", fmt.Errorf("unknown key %q", keyName)
	}

	opts := (&jose.SignerOptions{}).WithType("JWT")
	if kid := getStr(desc, "kid"); kid != "" {
		opts = opts.WithHeader("kid", kid)
	}

	sk := jose.SigningKey{Algorithm: jose.ES256, Key: key}

	switch alg := getStr(desc, "alg"); alg {
	case "", "ES256":
	case "RS256", "PS256":
		sk = jose.SigningKey{Algorithm: jose.SignatureAlgorithm(alg), Key: inf.rsaKey}
	case "EdDSA":
		sk = jose.SigningKey{Algorithm: jose.EdDSA, Key: inf.edKey}
	case "HS256":
		sk = jose.SigningKey{Algorithm: jose.HS256, Key: inf.hmacKey}
	default:
		return "", fmt.Errorf("unknown algorithm %q", alg)
	}

	signer, err := jose.NewSigner(sk, opts)
	if err != nil {
		return "", err
	}

	var payload []byte

	if getStr(desc, "payload") == "text" {
		payload = []byte("this is not a JSON object")
	} else {
		now := time.Now().Unix()
		claims := map[string]any{}

		for _, k := range []string{"iss", "sub", "aud", "scope", "jti"} {
			if v, ok := desc[k]; ok && v != nil {
				claims[k] = v
			}
		}

		for _, k := range []string{"exp", "nbf", "iat"} {
			if v, ok := desc[k]; ok && v != nil {
				claims[k] = now + int64(getInt(desc, k))
			}
		}

		// claims written exactly as given (the token is signed all the same): dates out of range, wrong JSON types
		c04RawClaims(claims, desc)

		payload, err = json.Marshal(claims)
		if err != nil {
			return "", err
		}
	}

	sig, err := signer.Sign(payload)
	if err != nil {
		return "", err
	}

	tok, err := sig.CompactSerialize()
	if err != nil {
		return "", err
	}

	// other spellings of the same token, which go-jose's lenient base64 decoder reads as the same octets
	switch getStr(desc, "respell") {
	case "bits":
		// set an unused bit of the last character of the signature
		const alphabet = "ABCDEFGHIJKLMNOPQRSTUVWXYZabcdefghijklmnopqrstuvwxyz0123456789-_"

		sigPart := tok[strings.LastIndex(tok, ".")+1:]
		if len(sigPart)%4 == 0 {
			return "", errors.New("the signature has no unused bits")
		}

		last := strings.IndexByte(alphabet, tok[len(tok)-1])
		tok = tok[:len(tok)-1] + string(alphabet[last+1])
	case "crlf":
		first := strings.Index(tok, ".")
		mid := first + 1 + (strings.LastIndex(tok, ".")-first-1)/2
		tok = tok[:mid] + "\r\n" + tok[mid:]
	}

	return tok, nil
}

// ---------------------------------------------------------------------------------------------------------------
// recording wrapper around the real mechanism factory

type c04Recorder struct {
	mu    sync.Mutex
	trace []any
}

func (r *c04Recorder) add(id string, sub *subject.Subject, err error) {
	r.mu.Lock()
	r.trace = append(r.trace, []any{id, c04Obs(sub, err)})
	r.mu.Unlock()
}

func (r *c04Recorder) take() []any {
	r.mu.Lock()
	defer r.mu.Unlock()

	t := r.trace
	r.trace = nil

	if t == nil {
		t = []any{}
	}

	return t
}

type c04Authn struct {
	inner authenticators.Authenticator
	rec   *c04Recorder
}

func (a *c04Authn) ID() string { return a.inner.ID() }

func (a *c04Authn) Execute(ctx heimdall.Context) (*subject.Subject, error) {
	sub, err := a.inner.Execute(ctx)
	a.rec.add(a.inner.ID(), sub, err)

	return sub, err
}

func (a *c04Authn) WithConfig(conf map[string]any) (authenticators.Authenticator, error) {
	inner, err := a.inner.WithConfig(conf)
	if err != nil {
		return nil, err
	}

	return &c04Authn{inner: inner, rec: a.rec}, nil
}

func (a *c04Authn) IsFallbackOnErrorAllowed() bool { return a.inner.IsFallbackOnErrorAllowed() }

type c04Factory struct {
	inner mechanisms.MechanismFactory
	rec   *c04Recorder
}

func (f *c04Factory) CreateAuthenticator(version, id string, conf config.MechanismConfig) (
	authenticators.Authenticator, error,
) {
	a, err := f.inner.CreateAuthenticator(version, id, conf)
	if err != nil {
		return nil, err
	}

	return &c04Authn{inner: a, rec: f.rec}, nil
}

func (f *c04Factory) CreateAuthorizer(version, id string, conf config.MechanismConfig) (authorizers.Authorizer, error) {
	return f.inner.CreateAuthorizer(version, id, conf)
}

func (f *c04Factory) CreateContextualizer(version, id string, conf config.MechanismConfig) (
	contextualizers.Contextualizer, error,
) {
	return f.inner.CreateContextualizer(version, id, conf)
}

func (f *c04Factory) CreateFinalizer(version, id string, conf config.MechanismConfig) (finalizers.Finalizer, error) {
	return f.inner.CreateFinalizer(version, id, conf)
}

func (f *c04Factory) CreateErrorHandler(version, id string, conf config.MechanismConfig) (
	errorhandlers.ErrorHandler, error,
) {
	return f.inner.CreateErrorHandler(version, id, conf)
}

// ---------------------------------------------------------------------------------------------------------------
// cases

func c04Sources(m map[string]any) ([]any, bool) {
	raw, ok := m["src"].([]any)
	if !ok {
		return nil, false
	}

	res := []any{}

	for _, s := range raw {
		sm := obj(s)

		switch getStr(sm, "k") {
		case "header":
			e := map[string]any{"header": getStr(sm, "name")}
			if sc := getStr(sm, "scheme"); sc != "" {
				e["scheme"] = sc
			}

			res = append(res, e)
		case "query":
			res = append(res, map[string]any{"query_parameter": getStr(sm, "name")})
		case "cookie":
			res = append(res, map[string]any{"cookie": getStr(sm, "name")})
		case "body":
			res = append(res, map[string]any{"body_parameter": getStr(sm, "name")})
		}
	}

	return res, true
}

func c04Strs(m map[string]any, k string) []any {
	res := []any{}
	for _, s := range getStrs(m, k) {
		res = append(res, s)
	}

	return res
}

// the mechanism definition as it would stand in heimdall's configuration
func (inf *c04Infra) mechanism(m map[string]any) (config.Mechanism, error) {
	typ := getStr(m, "type")
	conf := config.MechanismConfig{}

	endpoint := func(base, prefix string) string {
		if v := getStr(m, "ep"); v == "dead" {
			return inf.dead + prefix + "ok"
		} else if v != "" {
			return base + prefix + v
		}

		return base + prefix + "ok"
	}

	// written only if the case states it: the default of the code under test is part of what is checked
	if fb, ok := m["fb"].(bool); ok {
		conf["allow_fallback_on_error"] = fb
	}

	switch typ {
	case "anonymous":
		if s := getStr(m, "subject"); s != "" {
			conf["subject"] = s
		}
	case "unauthorized":
	case "basic_auth":
		conf["user_id"] = getStr(m, "user")
		conf["password"] = getStr(m, "pass")
	case "jwt":
		if meta := getStr(m, "meta"); meta != "" {
			ep := getStr(m, "ep")
			if ep == "" {
				ep = "ok"
			}

			conf["metadata_endpoint"] = c04Templated(m, map[string]any{
				"url":                                    inf.meta.URL + "/meta/" + meta + "/jwks/" + ep,
				"disable_issuer_identifier_verification": true,
			}, ".TokenIssuer")
		} else {
			conf["jwks_endpoint"] = c04Templated(m, map[string]any{"url": endpoint(inf.jwks.URL, "/jwks/")},
				".TokenIssuer")
		}

		assertions := map[string]any{"issuers": c04Strs(m, "iss")}

		if aud := c04Strs(m, "aud"); len(aud) != 0 {
			assertions["audience"] = aud
		}

		if algs := c04Strs(m, "algs"); len(algs) != 0 {
			assertions["allowed_algorithms"] = algs
		}

		conf["assertions"] = assertions

		if src, ok := c04Sources(m); ok {
			conf["jwt_source"] = src
		}
	case "oauth2_introspection":
		if meta := getStr(m, "meta"); meta != "" {
			ep := getStr(m, "ep")
			if ep == "" {
				ep = "ok"
			}

			conf["metadata_endpoint"] = c04Templated(m, map[string]any{
				"url":                                    inf.meta.URL + "/meta/" + meta + "/introspect/" + ep,
				"disable_issuer_identifier_verification": true,
			}, ".TokenIssuer")
		} else {
			conf["introspection_endpoint"] = c04Templated(m,
				map[string]any{"url": endpoint(inf.intro.URL, "/introspect/")}, ".TokenIssuer")
		}

		assertions := map[string]any{"issuers": c04Strs(m, "iss")}

		if aud := c04Strs(m, "aud"); len(aud) != 0 {
			assertions["audience"] = aud
		}

		conf["assertions"] = assertions

		if src, ok := c04Sources(m); ok {
			conf["token_source"] = src
		}
	case "generic":
		conf["identity_info_endpoint"] = c04Templated(m,
			map[string]any{"url": endpoint(inf.ident.URL, "/identity/"), "method": "POST"}, ".AuthenticationData")
		conf["payload"] = "{{ .AuthenticationData }}"
		if getBool(m, "tpl") {
			// api keys of the form <id>.<secret>: only the secret is sent to the identity endpoint
			conf["payload"] = `{{ atIndex 1 (splitList "." .AuthenticationData) }}`
		}

		conf["subject"] = map[string]any{"id": "sub"}

		if getBool(m, "lifespan") {
			conf["session_lifespan"] = map[string]any{"active": "active", "not_after": "exp", "not_before": "nbf"}
		}

		if src, ok := c04Sources(m); ok {
			conf["authentication_data_source"] = src
		}
	default:
		return config.Mechanism{}, fmt.Errorf("unknown authenticator type %q", typ)
	}

	return config.Mechanism{ID: getStr(m, "id"), Type: typ, Config: conf}, nil
}

func c04Subst(s string, tokens map[string]string) string {
	// placeholders have the form J<name>.plpl.hdhd (canonical JWS compact forms themselves) or a respelling of it
	if !strings.Contains(s, ".pl") {
		return s
	}

	jsonEsc := func(v string) string {
		raw, _ := json.Marshal(v)

		return string(raw[1 : len(raw)-1])
	}

	for ph, tok := range tokens {
		s = strings.ReplaceAll(s, ph, tok)

		// the spellings of the placeholder inside a query string / form body and inside a JSON or YAML body
		if e := url.QueryEscape(ph); e != ph {
			s = strings.ReplaceAll(s, e, url.QueryEscape(tok))
		}

		if e := jsonEsc(ph); e != ph {
			s = strings.ReplaceAll(s, e, jsonEsc(tok))
		}
	}

	return s
}

func c04Pairs(v any) [][2]string {
	var res [][2]string

	for _, p := range c04Arr(v) {
		pa, _ := p.([]any)
		if len(pa) == 2 {
			a, _ := pa[0].(string)
			b, _ := pa[1].(string)
			res = append(res, [2]string{a, b})
		}
	}

	return res
}

func c04Arr(v any) []any { a, _ := v.([]any); return a }

func c04Request(rq map[string]any, tokens map[string]string) (*http.Request, error) {
	method := getStr(rq, "method")
	if method == "" {
		method = http.MethodGet
	}

	var body io.Reader

	bm, hasBody := rq["body"].(map[string]any)
	if hasBody {
		body = strings.NewReader(c04Subst(getStr(bm, "raw"), tokens))
	}

	req, err := http.NewRequestWithContext(context.Background(), method, "http://heimdall.local/c04", body)
	if err != nil {
		return nil, err
	}

	req.RemoteAddr = "192.0.2.1:1234"

	// the query string: either exactly as it would stand in the request line, or rendered from decoded pairs
	if raw, ok := rq["rawQuery"].(string); ok {
		req.URL.RawQuery = c04Subst(raw, tokens)
	} else {
		parts := []string{}
		for _, p := range c04Pairs(rq["query"]) {
			parts = append(parts, url.QueryEscape(p[0])+"="+url.QueryEscape(c04Subst(p[1], tokens)))
		}

		req.URL.RawQuery = strings.Join(parts, "&")
	}

	if host, ok := rq["host"].(string); ok {
		req.Host = c04Subst(host, tokens)
	}

	// Content-Type: one line, several lines, or none at all
	if hasBody {
		switch ct := bm["ct"].(type) {
		case string:
			req.Header.Set("Content-Type", ct)
		case []any:
			for _, l := range ct {
				line, _ := l.(string)
				req.Header.Add("Content-Type", line)
			}
		}
	}

	// header names in any spelling: net/http stores them in canonical form, as its server does
	for _, p := range c04Pairs(rq["headers"]) {
		req.Header.Add(p[0], c04Subst(p[1], tokens))
	}

	// Cookie header lines: either verbatim, or rendered from pairs
	if lines, ok := rq["rawCookies"].([]any); ok {
		for _, l := range lines {
			line, _ := l.(string)
			req.Header.Add("Cookie", c04Subst(line, tokens))
		}
	} else {
		cookies := []string{}
		for _, p := range c04Pairs(rq["cookies"]) {
			cookies = append(cookies, p[0]+"="+c04Subst(p[1], tokens))
		}

		if len(cookies) != 0 {
			req.Header.Set("Cookie", strings.Join(cookies, "; "))
		}
	}

	return req, nil
}

// c04Decoder: which body decoder contenttype.NewDecoder chooses for each of the given Content-Type values
func c04Decoder(c map[string]any) (any, error) {
	out := []any{}

	for _, ct := range getStrs(c, "cts") {
		dec, err := contenttype.NewDecoder(ct)

		switch {
		case err != nil:
			out = append(out, nil)
		default:
			switch dec.(type) {
			case contenttype.JSONDecoder:
				out = append(out, "json")
			case contenttype.WWWFormUrlencodedDecoder:
				out = append(out, "form")
			case contenttype.YAMLDecoder:
				out = append(out, "yaml")
			default:
				out = append(out, fmt.Sprintf("%T", dec))
			}
		}
	}

	return out, nil
}

func c04Run(c map[string]any) (any, error) {
	if getStr(c, "op") == "decoder" {
		return c04Decoder(c)
	}

	inf, err := c04Setup()
	if err != nil {
		return nil, err
	}

	// tokens
	tokens := map[string]string{}

	for _, t := range getArr(c, "tokens") {
		tm := obj(t)

		tok, err := inf.mint(tm)
		if err != nil {
			return nil, err
		}

		tokens[getStr(tm, "ph")] = tok
	}

	registry := func(k string) map[string]map[string]any {
		res := map[string]map[string]any{}
		for key, spec := range obj(c[k]) {
			res[c04Subst(key, tokens)] = obj(spec)
		}

		return res
	}

	inf.mu.Lock()
	inf.introReg = registry("intro")
	inf.identReg = registry("ident")
	inf.mu.Unlock()

	// mechanisms
	conf := &config.Configuration{Prototypes: &config.MechanismPrototypes{}}

	for _, m := range getArr(c, "mechs") {
		mech, err := inf.mechanism(obj(m))
		if err != nil {
			return nil, err
		}

		conf.Prototypes.Authenticators = append(conf.Prototypes.Authenticators, mech)
	}

	conf.Prototypes.Finalizers = []config.Mechanism{{
		ID: "subject_header", Type: "header",
		Config: config.MechanismConfig{"headers": map[string]any{"X-User": "{{ .Subject.ID }}"}},
	}}

	logger := zerolog.Nop()

	real, err := mechanisms.NewMechanismFactory(conf, logger, &watcher.NoopWatcher{}, nil, certificate.NewObserver())
	if err != nil {
		return map[string]any{"config_error": c04Kinds(err)}, nil
	}

	rec := &c04Recorder{}

	factory, err := rules.NewRuleFactory(&c04Factory{inner: real, rec: rec}, conf, config.DecisionMode, logger)
	if err != nil {
		return nil, err
	}

	// the rule
	rc := rconfig.Rule{ID: "c04"}
	rc.Matcher.Routes = []rconfig.Route{{Path: "/c04"}}

	for _, s := range getArr(c, "steps") {
		sm := obj(s)
		step := config.MechanismConfig{"authenticator": getStr(sm, "ref")}

		stepConf := map[string]any{}

		if fb, ok := sm["fb"].(bool); ok {
			stepConf["allow_fallback_on_error"] = fb
		}

		// a rule-level setting that has nothing to do with fallback (must not disturb it)
		if getBool(sm, "ttl") {
			stepConf["cache_ttl"] = "5s"
		}

		// rule-level assertions (the check of a credential then depends on the step)
		if aud := c04Strs(sm, "aud"); len(aud) != 0 {
			stepConf["assertions"] = map[string]any{"audience": aud}
		}

		if len(stepConf) != 0 {
			step["config"] = stepConf
		}

		rc.Execute = append(rc.Execute, step)
	}

	rc.Execute = append(rc.Execute, config.MechanismConfig{"finalizer": "subject_header"})

	rul, err := factory.CreateRule(rconfig.CurrentRuleSetVersion, "c04", rc)
	if err != nil {
		return map[string]any{"rule_error": c04Kinds(err)}, nil
	}

	// optionally a real in-memory cache, as the services put it into the request context
	var cch cache.Cache

	if getBool(c, "cache") {
		cch, err = memory.NewCache(nil, nil, nil)
		if err != nil {
			return nil, err
		}

		if err = cch.Start(context.Background()); err != nil {
			return nil, err
		}

		defer cch.Stop(context.Background()) //nolint:errcheck
	}

	out := []any{}

	for _, r := range getArr(c, "reqs") {
		req, err := c04Request(obj(r), tokens)
		if err != nil {
			return nil, err
		}

		if cch != nil {
			req = req.WithContext(cache.WithContext(req.Context(), cch))
		}

		ctx := requestcontext.New(req)

		rec.take()

		_, err = rul.Execute(ctx)

		res := map[string]any{"trace": rec.take()}

		if err != nil {
			res["final"] = map[string]any{"err": c04Kinds(err)}
		} else {
			res["final"] = map[string]any{"ok": ctx.UpstreamHeaders().Get("X-User")}
		}

		out = append(out, res)
	}

	return out, nil
}
