package main

// Family "loaders", operation "k8s" (property C19): RuleSet resources as remote input.
//
// The real kubernetes rule provider with its real client-go REST client and informer runs against a scripted API
// server on a loopback port: list, watch (a stream of events written by the case), GET of a single resource and the
// PATCH of the status subresource, which the provider sends after every event it has handled.  The case chooses what
// the resources look like (`status.activeIn` in particular: absent, "", "x", "a/b", ...) and how the API server
// answers the PATCH (200, 404, 409, 422, 500, a response that breaks off, garbage, connection closed / reset, not
// reachable at all).  Rule sets go to the real rule set processor, factory and repository; after every step the
// rules answering the probe requests are recorded.
//
// Nothing here recovers on behalf of heimdall: the event handlers run on the informer's goroutine, and client-go's
// HandleCrash re-panics (ReallyCrash is left at its default): a panic there ends this process, which the check
// reports as a crash.

import (
	"context"
	"encoding/json"
	"errors"
	"fmt"
	"net"
	"net/http"
	"strings"
	"sync"
	"time"

	"github.com/rs/zerolog"

	"github.com/dadrus/heimdall/internal/config"
	"github.com/dadrus/heimdall/internal/rules"
	rulecfg "github.com/dadrus/heimdall/internal/rules/config"
	"github.com/dadrus/heimdall/internal/rules/provider/kubernetes"
	"github.com/dadrus/heimdall/internal/rules/rule"
)

const (
	c19K8sGroup = "heimdall.dadrus.github.com/v1alpha4"
	c19K8sBase  = "/apis/heimdall.dadrus.github.com/v1alpha4"
	c19K8sClass = "verif"
)

// c19K8sProc notes which rule sets the provider has handed on (after the real processor has dealt with them)
type c19K8sProc struct {
	inner rule.SetProcessor
	seen  *c19Names
}

type c19Names struct {
	mu  sync.Mutex
	set map[string]int
}

func (s *c19Names) mark(n string) {
	s.mu.Lock()
	defer s.mu.Unlock()

	if s.set == nil {
		s.set = map[string]int{}
	}

	s.set[n]++
}

func (s *c19Names) count(n string) int {
	s.mu.Lock()
	defer s.mu.Unlock()

	return s.set[n]
}

func (p *c19K8sProc) OnCreated(rs *rulecfg.RuleSet) error {
	defer p.seen.mark("created:" + rs.Name)

	return p.inner.OnCreated(rs)
}

func (p *c19K8sProc) OnUpdated(rs *rulecfg.RuleSet) error {
	defer p.seen.mark("updated:" + rs.Name)

	return p.inner.OnUpdated(rs)
}

func (p *c19K8sProc) OnDeleted(rs *rulecfg.RuleSet) error {
	defer p.seen.mark("deleted:" + rs.Name)

	return p.inner.OnDeleted(rs)
}

type c19K8sAPI struct {
	mu       sync.Mutex
	rv       int
	items    map[string]map[string]any // name -> resource
	order    []string
	script   []string // answers to the next PATCH requests; "200" when used up
	patches  []string // what was answered
	watching chan struct{}
	events   chan []byte
	once     sync.Once
}

// c19K8sObject: {"name", "uid"?, "gen"?, "rule": id (route /<id>), "bad": rule the factory refuses,
// "cls": false = of another authentication class, "active_in": text | absent, "no_status": true,
// "config": the `config` of the mechanism reference in `execute` (any JSON object)}
func (a *c19K8sAPI) object(o map[string]any) map[string]any {
	a.rv++

	name := getStr(o, "name")
	uid := getStr(o, "uid")

	if uid == "" {
		uid = name + "-uid"
	}

	gen := getInt(o, "gen")
	if gen == 0 {
		gen = 1
	}

	cls := c19K8sClass
	if v, ok := o["cls"].(bool); ok && !v {
		cls = "other"
	}

	id := getStr(o, "rule")
	if id == "" {
		id = name
	}

	execute := []any{map[string]any{"authenticator": "anon"}}
	if getBool(o, "bad") {
		execute = []any{map[string]any{"authorizer": "allow"}}
	}

	// the rule level config of the mechanism reference: an untyped object, whatever the case puts there (the CRD
	// keeps unknown fields, so the API server delivers it as it was written: nulls, lists with empty entries, ...)
	if cfg, ok := o["config"]; ok {
		obj(execute[0])["config"] = cfg
	}

	res := map[string]any{
		"apiVersion": c19K8sGroup, "kind": "RuleSet",
		"metadata": map[string]any{
			"name": name, "namespace": "ns", "uid": uid, "resourceVersion": fmt.Sprint(a.rv), "generation": gen,
			"creationTimestamp": "2024-01-01T00:00:00Z",
		},
		"spec": map[string]any{"authClassName": cls, "rules": []any{map[string]any{
			"id": id, "match": map[string]any{"routes": []any{map[string]any{"path": "/" + id}}}, "execute": execute,
		}}},
	}

	if !getBool(o, "no_status") {
		status := map[string]any{}
		if v, ok := o["active_in"].(string); ok {
			status["activeIn"] = v
		}

		res["status"] = status
	}

	return res
}

func (a *c19K8sAPI) put(res map[string]any, remove bool) {
	name := getStr(obj(res["metadata"]), "name")

	if _, ok := a.items[name]; !ok && !remove {
		a.order = append(a.order, name)
	}

	if remove {
		delete(a.items, name)

		order := a.order[:0:0]
		for _, n := range a.order {
			if n != name {
				order = append(order, n)
			}
		}

		a.order = order
	} else {
		a.items[name] = res
	}
}

func c19K8sStatus(code int) []byte {
	reason := map[int]string{
		http.StatusNotFound: "NotFound", http.StatusConflict: "Conflict", http.StatusUnprocessableEntity: "Invalid",
		http.StatusInternalServerError: "InternalError", http.StatusForbidden: "Forbidden",
		http.StatusServiceUnavailable: "ServiceUnavailable",
	}[code]

	raw, _ := json.Marshal(map[string]any{
		"kind": "Status", "apiVersion": "v1", "metadata": map[string]any{}, "status": "Failure",
		"message": "scripted failure", "reason": reason, "code": code,
	})

	return raw
}

// c19RawReply takes the connection away from net/http and writes the given bytes as they are
func c19RawReply(rw http.ResponseWriter, raw []byte, reset bool) {
	hj, ok := rw.(http.Hijacker)
	if !ok {
		return
	}

	conn, _, err := hj.Hijack()
	if err != nil {
		return
	}

	if len(raw) != 0 {
		conn.Write(raw) //nolint:errcheck
	}

	if tcp, ok := conn.(*net.TCPConn); ok && reset {
		tcp.SetLinger(0) //nolint:errcheck
	}

	conn.Close()
}

func (a *c19K8sAPI) ServeHTTP(rw http.ResponseWriter, req *http.Request) {
	path := strings.TrimPrefix(req.URL.Path, c19K8sBase)

	switch {
	case req.Method == http.MethodGet && req.URL.Query().Get("watch") == "true":
		rw.Header().Set("Content-Type", "application/json")
		rw.WriteHeader(http.StatusOK)

		fl, _ := rw.(http.Flusher)
		if fl != nil {
			fl.Flush()
		}

		a.once.Do(func() { close(a.watching) })

		for {
			select {
			case ev := <-a.events:
				rw.Write(ev) //nolint:errcheck

				if fl != nil {
					fl.Flush()
				}
			case <-req.Context().Done():
				return
			}
		}
	case req.Method == http.MethodGet && path == "/rulesets":
		a.mu.Lock()
		items := []any{}

		for _, n := range a.order {
			items = append(items, a.items[n])
		}

		raw, _ := json.Marshal(map[string]any{
			"apiVersion": c19K8sGroup, "kind": "RuleSetList",
			"metadata": map[string]any{"resourceVersion": fmt.Sprint(a.rv)}, "items": items,
		})
		a.mu.Unlock()

		rw.Header().Set("Content-Type", "application/json")
		rw.Header().Set("Connection", "close")
		rw.Write(raw) //nolint:errcheck
	case req.Method == http.MethodPatch && strings.HasSuffix(path, "/status"):
		parts := strings.Split(path, "/")
		name := parts[len(parts)-2]

		a.mu.Lock()
		behaviour := "200"
		if len(a.script) != 0 {
			behaviour, a.script = a.script[0], a.script[1:]
		}

		a.patches = append(a.patches, behaviour)
		raw, _ := json.Marshal(a.items[name])
		known := a.items[name] != nil
		a.mu.Unlock()

		rw.Header().Set("Content-Type", "application/json")
		rw.Header().Set("Connection", "close")

		switch behaviour {
		case "200":
			if !known {
				rw.WriteHeader(http.StatusNotFound)
				rw.Write(c19K8sStatus(http.StatusNotFound)) //nolint:errcheck

				return
			}

			rw.Write(raw) //nolint:errcheck
		case "403", "404", "409", "422", "500", "503":
			code := 0
			fmt.Sscan(behaviour, &code) //nolint:errcheck
			rw.WriteHeader(code)
			rw.Write(c19K8sStatus(code)) //nolint:errcheck
		case "500-text":
			rw.Header().Set("Content-Type", "text/plain")
			rw.WriteHeader(http.StatusInternalServerError)
			rw.Write([]byte("boom")) //nolint:errcheck
		case "200-garbage":
			rw.Write([]byte("<html>not the API server</html>")) //nolint:errcheck
		case "200-empty":
			rw.WriteHeader(http.StatusOK)
		case "200-cut":
			head := fmt.Sprintf("HTTP/1.1 200 OK\r\nContent-Type: application/json\r\nContent-Length: %d\r\n"+
				"Connection: close\r\n\r\n", len(raw))
			c19RawReply(rw, append([]byte(head), raw[:len(raw)/2]...), false)
		case "close":
			c19RawReply(rw, nil, false)
		case "reset":
			c19RawReply(rw, nil, true)
		default:
			rw.WriteHeader(http.StatusTeapot)
		}
	case req.Method == http.MethodGet && strings.HasPrefix(path, "/namespaces/"):
		parts := strings.Split(path, "/")
		name := parts[len(parts)-1]

		a.mu.Lock()
		res, ok := a.items[name]
		raw, _ := json.Marshal(res)
		a.mu.Unlock()

		rw.Header().Set("Content-Type", "application/json")
		rw.Header().Set("Connection", "close")

		if !ok {
			rw.WriteHeader(http.StatusNotFound)
			rw.Write(c19K8sStatus(http.StatusNotFound)) //nolint:errcheck

			return
		}

		rw.Write(raw) //nolint:errcheck
	default:
		rw.WriteHeader(http.StatusNotFound)
		rw.Write(c19K8sStatus(http.StatusNotFound)) //nolint:errcheck
	}
}

// c19K8s: {"init": [objects], "steps": [{"ev": "add"|"mod"|"del", "obj": object, "patch": [answers]}],
// "unreachable": the API server stops accepting connections once the watch is established, "probes": [paths]}
func c19K8s(c map[string]any) (any, error) {
	c19EnvOnce.Do(c19SetupRulesEnv)

	if c19Env.err != nil {
		return nil, errors.New("loaders: environment: " + c19Env.err.Error())
	}

	ln, err := c19Listen()
	if err != nil {
		return nil, err
	}

	api := &c19K8sAPI{
		rv: 100, items: map[string]map[string]any{}, watching: make(chan struct{}), events: make(chan []byte, 64),
	}

	for _, o := range getArr(c, "init") {
		api.put(api.object(obj(o)), false)
	}

	api.script = getStrs(c, "init_patch")

	srv := &http.Server{Handler: api, ReadHeaderTimeout: c19WaitLimit} //nolint:gosec

	go srv.Serve(ln) //nolint:errcheck

	defer srv.Close()

	repo := rules.VerifC19NewRepository(c19Env.factory)
	seen := &c19Names{}
	proc := &c19K8sProc{inner: rules.NewRuleSetProcessor(repo, c19Env.factory), seen: seen}
	log := &c19Log{}

	conf := &config.Configuration{Providers: config.RuleProviders{
		Kubernetes: map[string]any{"auth_class": c19K8sClass},
	}}

	prov, err := kubernetes.VerifC19New(conf, proc, c19Env.factory, "http://"+ln.Addr().String(),
		zerolog.New(log).Level(zerolog.WarnLevel))
	if err != nil {
		return nil, err
	}

	if err = prov.Start(context.Background()); err != nil {
		return nil, err
	}

	stopped := false
	stop := func() {
		if stopped {
			return
		}

		stopped = true

		ctx, cancel := context.WithTimeout(context.Background(), 5*time.Second)
		defer cancel()

		prov.Stop(ctx) //nolint:errcheck
	}

	defer stop()

	res := map[string]any{"alive": true}
	probes := getStrs(c, "probes")

	select {
	case <-api.watching:
	case <-time.After(c19WaitLimit):
		res["timeout"] = "no watch"

		return res, nil
	}

	send := func(kind string, o map[string]any) {
		raw, _ := json.Marshal(map[string]any{"type": kind, "object": o})
		api.events <- append(raw, '\n')
	}

	// the informer handles one notification at a time, in order: once the processor has been handed a sentinel
	// rule set sent afterwards, everything before it has been dealt with, the status update included
	sentinel := 0
	barrier := func() bool {
		sentinel++
		name := fmt.Sprintf("zz%d", sentinel)

		api.mu.Lock()
		o := api.object(map[string]any{"name": name, "active_in": "0/0"})
		api.put(o, false)
		api.mu.Unlock()

		send("ADDED", o)

		return c19WaitFor(func() bool { return seen.count("created:"+name) > 0 })
	}

	if !barrier() {
		res["timeout"] = "start"

		return res, nil
	}

	if getBool(c, "unreachable") {
		ln.Close()
	}

	answers := [][]string{c19Probe(repo, probes)}
	handled := []bool{}

	for _, s := range getArr(c, "steps") {
		step := obj(s)

		api.mu.Lock()
		o := api.object(obj(step["obj"]))
		ev := getStr(step, "ev")
		api.put(o, ev == "del")
		api.script = getStrs(step, "patch")
		api.mu.Unlock()

		send(map[string]string{"add": "ADDED", "mod": "MODIFIED", "del": "DELETED"}[ev], o)

		ok := barrier()
		handled = append(handled, ok)
		answers = append(answers, c19Probe(repo, probes))

		if !ok {
			res["timeout"] = "step"

			break
		}
	}

	// shutting down: the provider reports "controller stopped" in the status of every resource it knows
	api.mu.Lock()
	api.script = getStrs(c, "stop_patch")
	api.mu.Unlock()

	stop()

	api.mu.Lock()
	res["patches"] = len(api.patches)
	api.mu.Unlock()

	res["handled"] = handled
	res["answers"] = answers

	return res, nil
}
