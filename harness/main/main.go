// Package main is the implementation-side executor of the /verif line protocol.
// It is injected into /repo as internal/zzverif/harness by a go build overlay; nothing is committed to /repo.
package main

import (
	"bufio"
	"encoding/json"
	"fmt"
	"os"
	"runtime/debug"
)

type family func(c map[string]any) (any, error)

var families = map[string]family{}

func runCase(c map[string]any) (out any) {
	defer func() {
		if r := recover(); r != nil {
			out = map[string]any{"panic": fmt.Sprint(r), "stack": string(debug.Stack())}
		}
	}()

	fam, _ := c["fam"].(string)

	f, ok := families[fam]
	if !ok {
		return map[string]any{"harness_error": "unknown family " + fam}
	}

	res, err := f(c)
	if err != nil {
		return map[string]any{"harness_error": err.Error()}
	}

	return res
}

func main() {
	in := bufio.NewReaderSize(os.Stdin, 1<<20)
	out := bufio.NewWriterSize(os.Stdout, 1<<20)

	defer out.Flush()

	dec := json.NewDecoder(in)
	dec.UseNumber()

	enc := json.NewEncoder(out)
	enc.SetEscapeHTML(false)

	for {
		var c map[string]any
		if err := dec.Decode(&c); err != nil {
			break
		}

		if err := enc.Encode(runCase(c)); err != nil {
			fmt.Fprintln(os.Stderr, "encode:", err)
			os.Exit(2)
		}

		out.Flush()
	}
}

// helpers

func getStr(m map[string]any, k string) string { s, _ := m[k].(string); return s }

func getBool(m map[string]any, k string) bool { b, _ := m[k].(bool); return b }

func getInt(m map[string]any, k string) int {
	switch v := m[k].(type) {
	case json.Number:
		i, _ := v.Int64()

		return int(i)
	case float64:
		return int(v)
	}

	return 0
}

func getArr(m map[string]any, k string) []any { a, _ := m[k].([]any); return a }

func getInts(m map[string]any, k string) []int {
	var res []int

	for _, v := range getArr(m, k) {
		switch n := v.(type) {
		case json.Number:
			i, _ := n.Int64()
			res = append(res, int(i))
		case float64:
			res = append(res, int(n))
		}
	}

	return res
}

func getStrs(m map[string]any, k string) []string {
	var res []string

	for _, v := range getArr(m, k) {
		s, _ := v.(string)
		res = append(res, s)
	}

	return res
}

func obj(v any) map[string]any { m, _ := v.(map[string]any); return m }
