package main

import (
	"bytes"
	"context"
	"crypto/md5" //nolint:gosec
	"crypto/sha256"
	"encoding/hex"
	"errors"
	"fmt"
	"net"
	"net/http"
	"net/http/httptest"
	"os"
	"path/filepath"
	"sort"
	"strings"
	"sync"
	"time"

	"github.com/fsnotify/fsnotify"
	"github.com/johannesboyne/gofakes3"
	"github.com/johannesboyne/gofakes3/backend/s3mem"
	"github.com/rs/zerolog"
	metav1 "k8s.io/apimachinery/pkg/apis/meta/v1"
	"k8s.io/apimachinery/pkg/types"
	utilruntime "k8s.io/apimachinery/pkg/util/runtime"
	"k8s.io/apimachinery/pkg/watch"

	"github.com/dadrus/heimdall/internal/config"
	"github.com/dadrus/heimdall/internal/handler/requestcontext"
	"github.com/dadrus/heimdall/internal/rules"
	rconfig "github.com/dadrus/heimdall/internal/rules/config"
	"github.com/dadrus/heimdall/internal/rules/provider/cloudblob"
	"github.com/dadrus/heimdall/internal/rules/provider/filesystem"
	"github.com/dadrus/heimdall/internal/rules/provider/httpendpoint"
	"github.com/dadrus/heimdall/internal/rules/provider/kubernetes"
	"github.com/dadrus/heimdall/internal/rules/provider/kubernetes/api/v1alpha4"
	"github.com/dadrus/heimdall/internal/rules/rule"
)

// Family "prov" (property C18): scripted histories of rule-set sources against the REAL rule providers
// (file_system incl. a live fsnotify mode, http_endpoint against an httptest server, cloud_blob against an S3 fake,
// kubernetes through the real informer with a scripted list/watch source), a recording rule-set processor in front
// of the real processor + rule factory + repository. Observed per step: the OnCreated/OnUpdated/OnDeleted calls with
// their results, the rule sets active in the repository and the content hashes the provider remembers.

func init() {
	families["prov"] = runProv

	// the S3 client insists on credentials, the fake never looks at them
	os.Setenv("AWS_ACCESS_KEY_ID", "verif")     //nolint:errcheck
	os.Setenv("AWS_SECRET_ACCESS_KEY", "verif") //nolint:errcheck
	os.Setenv("AWS_EC2_METADATA_DISABLED", "true") //nolint:errcheck
}

// Waiting for the provider under test is counted in short naps instead of one deadline: a jump of the (virtual
// machine's) clock then costs one nap, not the whole patience.
const (
	c18Nap  = 10 * time.Millisecond
	c18Naps = 6000
)

// c18Await polls cond until it holds; false if patience ran out
func c18Await(cond func() bool) bool {
	for i := 0; i < c18Naps; i++ {
		if cond() {
			return true
		}

		if i < 200 {
			time.Sleep(100 * time.Microsecond)
		} else {
			time.Sleep(c18Nap)
		}
	}

	return cond()
}

var errC18Rejected = errors.New("verif: rule set processor rejects the call")

// ---------------------------------------------------------------------------------------------------------------
// contents

// content of version v: one rule `v<v>` on the path /c<v>; the version alone determines the bytes
// c18Path is the one path expression of content v. The versions v and v+500 (v < 500) use the same expression: the
// repository lets only one source own an expression, so it refuses the later one if it comes from another source.
func c18Path(v int) int {
	if v < 1000 {
		return v % 500
	}

	return v
}

func c18Doc(v int, bad bool) []byte {
	asJSON := v%5 == 0
	ver := rconfig.CurrentRuleSetVersion
	if bad {
		ver = "2"
	}

	if asJSON {
		return []byte(fmt.Sprintf(`{"version":"%s","name":"rs%d","rules":[{"id":"v%d","match":{"routes":[{"path":"/c%d"}]},`+
			`"execute":[{"authenticator":"a"}]}]}`, ver, v, v, c18Path(v)))
	}

	return []byte(fmt.Sprintf("version: \"%s\"\nname: rs%d\nrules:\n- id: v%d\n  match:\n    routes:\n      - path: /c%d\n"+
		"  execute:\n    - authenticator: a\n", ver, v, v, c18Path(v)))
}

var c18Invalid = [][]byte{
	[]byte("version: \"1alpha4\"\nrules: [ {id: x\n"),                              // broken YAML
	[]byte("{\"test\":\"foo\"}"),                                                    // unknown property
	[]byte("version: \"1alpha4\"\nname: x\n"),                                       // no rules
	[]byte("version: \"1alpha4\"\nname: x\nrules:\n- id: x\n  execute:\n    - authenticator: a\n"), // rule without match
	[]byte("\t- : : :\n"),                                                           // not a mapping
}

type c18Hashes struct {
	mu sync.Mutex
	m  map[string]string
}

func (h *c18Hashes) note(data []byte, v int) {
	h.mu.Lock()
	defer h.mu.Unlock()

	s := sha256.Sum256(data)
	m := md5.Sum(data) //nolint:gosec
	h.m[hex.EncodeToString(s[:])] = fmt.Sprintf("v%d", v)
	h.m[hex.EncodeToString(m[:])] = fmt.Sprintf("v%d", v)
}

func (h *c18Hashes) name(hash []byte) string {
	h.mu.Lock()
	defer h.mu.Unlock()

	if len(hash) == 0 {
		return "empty"
	}

	if n, ok := h.m[hex.EncodeToString(hash)]; ok {
		return n
	}

	return "?" + hex.EncodeToString(hash)[:8]
}

// materialise a file/response/blob state; returns (bytes, exists)
func (e *c18Env) bytesOf(spec map[string]any) ([]byte, bool) {
	switch getStr(spec, "st") {
	case "valid":
		d := c18Doc(getInt(spec, "v"), getBool(spec, "bad"))
		e.hashes.note(d, getInt(spec, "v"))

		return d, true
	case "empty":
		switch getInt(spec, "i") % 3 {
		case 1:
			return []byte("# nothing here\n"), true
		case 2:
			return []byte("\n\n"), true
		}

		return []byte{}, true
	case "invalid":
		return c18Invalid[getInt(spec, "i")%len(c18Invalid)], true
	}

	return nil, false
}

// ---------------------------------------------------------------------------------------------------------------
// recording processor in front of the real one

type c18Proc struct {
	mu     sync.Mutex
	inner  rule.SetProcessor
	rej    map[string]bool
	calls  [][]string
	canon  func(string) string
	rejKey func(string) string
	hidden func(string) bool
	seen   chan string
	gate   *c18Gate
}

// c18Gate holds the first processor call that arrives (the creation of the rules of a big rule set takes its time)
// until it is released; every other call passes. Used to let things happen while Start is in its initial load.
type c18Gate struct {
	mu      sync.Mutex
	n       int
	entered chan struct{}
	release chan struct{}
}

func newC18Gate() *c18Gate {
	return &c18Gate{entered: make(chan struct{}), release: make(chan struct{})}
}

func (g *c18Gate) pass() {
	g.mu.Lock()
	g.n++
	first := g.n == 1
	g.mu.Unlock()

	if first {
		close(g.entered)
		<-g.release
	}
}

func (g *c18Gate) count() int {
	g.mu.Lock()
	defer g.mu.Unlock()

	return g.n
}

func (p *c18Proc) handle(kind string, rs *rconfig.RuleSet, f func(*rconfig.RuleSet) error) error {
	src := p.canon(rs.Source)

	if p.hidden != nil && p.hidden(rs.Source) {
		err := f(rs)
		p.seen <- kind + " " + rs.Source

		return err
	}

	if p.gate != nil {
		p.gate.pass()
	}

	ids := []string{}
	for _, r := range rs.Rules {
		ids = append(ids, r.ID)
	}

	key := src
	if p.rejKey != nil {
		key = p.rejKey(src)
	}

	p.mu.Lock()
	rej := p.rej[key]
	p.mu.Unlock()

	var res string

	var err error

	if rej {
		err = errC18Rejected
	} else {
		err = f(rs)
	}

	res = "ok"
	if err != nil {
		res = "rejected"
	}

	content := strings.Join(ids, ",")
	if kind == "deleted" {
		content = ""
	}

	p.mu.Lock()
	p.calls = append(p.calls, []string{kind, src, content, res})
	p.mu.Unlock()

	return err
}

func (p *c18Proc) OnCreated(rs *rconfig.RuleSet) error { return p.handle("created", rs, p.inner.OnCreated) }
func (p *c18Proc) OnUpdated(rs *rconfig.RuleSet) error { return p.handle("updated", rs, p.inner.OnUpdated) }
func (p *c18Proc) OnDeleted(rs *rconfig.RuleSet) error { return p.handle("deleted", rs, p.inner.OnDeleted) }

func (p *c18Proc) setRej(step map[string]any) {
	p.mu.Lock()
	defer p.mu.Unlock()

	p.rej = map[string]bool{}
	for _, k := range getInts(step, "rej") {
		p.rej[fmt.Sprintf("s%d", k)] = true
	}
}

func (p *c18Proc) take() []any {
	p.mu.Lock()
	defer p.mu.Unlock()

	res := []any{}
	for _, c := range p.calls {
		res = append(res, c)
	}

	p.calls = nil

	return res
}

type c18Env struct {
	probes  []int
	repo    rule.Repository
	factory rule.Factory
	proc    *c18Proc
	hashes  *c18Hashes
}

func newC18Env(c map[string]any, canon func(string) string) (*c18Env, error) {
	factory, err := rules.NewRuleFactory(stubFactory{}, &config.Configuration{}, config.DecisionMode, zerolog.Nop())
	if err != nil {
		return nil, err
	}

	repo := rules.VerifNewRepository(factory)

	env := &c18Env{
		repo:    repo,
		factory: factory,
		proc:    &c18Proc{inner: rules.NewRuleSetProcessor(repo, factory), canon: canon, seen: make(chan string, 64)},
		hashes:  &c18Hashes{m: map[string]string{}},
	}
	env.probesOf(c)

	return env, nil
}

// rule sets active in the real repository: [[source, [rule ids in repository order]], ...] sorted by source
func (e *c18Env) active() []any {
	by := map[string][]string{}

	for _, sr := range rules.VerifC18Known(e.repo) {
		if e.proc.hidden != nil && e.proc.hidden(sr[0]) {
			continue
		}

		s := e.proc.canon(sr[0])
		by[s] = append(by[s], sr[1])
	}

	keys := make([]string, 0, len(by))
	for k := range by {
		keys = append(keys, k)
	}

	sort.Strings(keys)

	res := []any{}
	for _, k := range keys {
		res = append(res, []any{k, by[k]})
	}

	return res
}

func (e *c18Env) book(states map[string][]byte) []any {
	keys := []string{}
	m := map[string]string{}

	for src, h := range states {
		if e.proc.hidden != nil && e.proc.hidden(src) {
			continue
		}

		c := e.proc.canon(src)
		keys = append(keys, c)
		m[c] = e.hashes.name(h)
	}

	sort.Strings(keys)

	res := []any{}
	for _, k := range keys {
		res = append(res, []any{k, m[k]})
	}

	return res
}

// every content number mentioned in the case (contents the processor refuses for themselves are never loaded)
func c18Versions(x any, into map[int]bool) {
	switch t := x.(type) {
	case map[string]any:
		for k, v := range t {
			if k == "v" {
				if n := getInt(t, "v"); n > 0 && n < 1000 {
					into[c18Path(n)] = true
				}
			} else {
				c18Versions(v, into)
			}
		}
	case []any:
		for _, v := range t {
			c18Versions(v, into)
		}
	}
}

func (e *c18Env) probesOf(c map[string]any) {
	m := map[int]bool{}
	c18Versions(c, m)

	e.probes = e.probes[:0]
	for p := range m {
		e.probes = append(e.probes, p)
	}

	sort.Ints(e.probes)
}

// what the repository really answers with: for the path expression of every content of the case the rule found by
// FindRule, [[path, source, rule id], ...]; paths nobody serves are left out
func (e *c18Env) served() []any {
	res := []any{}

	for _, p := range e.probes {
		req, err := newHTTPRequest(http.MethodGet, fmt.Sprintf("/c%d", p), "verif.local")
		if err != nil {
			continue
		}

		rul, err := e.repo.FindRule(requestcontext.New(req))
		if err != nil || rul == nil {
			continue
		}

		if e.proc.hidden != nil && e.proc.hidden(rul.SrcID()) {
			continue
		}

		res = append(res, []any{fmt.Sprintf("/c%d", p), e.proc.canon(rul.SrcID()), rul.ID()})
	}

	return res
}

func (e *c18Env) snapshot(states map[string][]byte, err error) map[string]any {
	return map[string]any{"calls": e.proc.take(), "active": e.active(), "served": e.served(), "book": e.book(states),
		"err": err != nil}
}

// sort the calls of one step by (source, position): used where the implementation iterates over a Go map
func c18SortCalls(calls []any) []any {
	sort.SliceStable(calls, func(i, j int) bool {
		return calls[i].([]string)[1] < calls[j].([]string)[1] //nolint:forcetypeassert
	})

	return calls
}

// c18Server starts a test server on a loopback port from the kernel (retrying while the port range is exhausted)
func c18Server(h http.Handler) (*httptest.Server, error) {
	ln, err := verifListen("127.0.0.1:0")
	if err != nil {
		return nil, err
	}

	srv := &httptest.Server{Listener: ln, Config: &http.Server{Handler: h}} //nolint:gosec
	srv.Start()

	return srv, nil
}

func c18Logger() zerolog.Logger {
	if os.Getenv("VERIF_C18_LOG") != "" {
		return zerolog.New(os.Stderr)
	}

	return zerolog.Nop()
}

func runProv(c map[string]any) (any, error) {
	switch getStr(c, "kind") {
	case "fs":
		return runProvFS(c, false)
	case "fslive":
		return runProvFS(c, true)
	case "http":
		return runProvHTTP(c)
	case "blob":
		return runProvBlob(c)
	case "k8s":
		return runProvK8s(c)
	}

	return nil, errors.New("unknown provider kind")
}

// ---------------------------------------------------------------------------------------------------------------
// file_system

func c18FsOp(names []string) fsnotify.Op {
	var op fsnotify.Op

	for _, n := range names {
		switch n {
		case "create":
			op |= fsnotify.Create
		case "write":
			op |= fsnotify.Write
		case "chmod":
			op |= fsnotify.Chmod
		case "remove":
			op |= fsnotify.Remove
		case "rename":
			op |= fsnotify.Rename
		}
	}

	return op
}

func runProvFS(c map[string]any, live bool) (any, error) {
	root, err := os.MkdirTemp("", "verif-c18-fs-")
	if err != nil {
		return nil, err
	}

	defer os.RemoveAll(root)

	dir := filepath.Join(root, "rules")
	stage := filepath.Join(root, "stage")
	away := filepath.Join(root, "away")
	targets := filepath.Join(root, "targets")

	for _, d := range []string{dir, stage, away, targets} {
		if err = os.Mkdir(d, 0o755); err != nil {
			return nil, err
		}
	}

	if resolved, err2 := filepath.EvalSymlinks(dir); err2 == nil {
		dir = resolved
	}

	name := func(k int) string { return filepath.Join(dir, fmt.Sprintf("s%d.yaml", k)) }
	canon := func(src string) string {
		return strings.TrimSuffix(filepath.Base(strings.TrimPrefix(src, "file_system:")), ".yaml")
	}

	env, err := newC18Env(c, canon)
	if err != nil {
		return nil, err
	}

	if live {
		env.proc.hidden = func(src string) bool { return strings.HasPrefix(filepath.Base(src), "zz") }
	}

	seq := 0
	// put a directory entry into the given state without an observable intermediate state: the new file (or symbolic
	// link) is prepared elsewhere and moved in. "link": true makes the entry a symbolic link to a file / a directory /
	// nothing (dangling) outside of the watched directory; the state is then the one of its target.
	setFile := func(k int, spec map[string]any) error {
		st := getStr(spec, "st")
		link := getBool(spec, "link")

		if fi, err2 := os.Lstat(name(k)); err2 == nil && fi.IsDir() {
			_ = os.RemoveAll(name(k))
		}

		if st == "dir" && !link {
			_ = os.RemoveAll(name(k))

			return os.Mkdir(name(k), 0o755)
		}

		data, exists := env.bytesOf(spec)
		if !exists && !link {
			return os.RemoveAll(name(k))
		}

		seq++
		tmp := filepath.Join(stage, fmt.Sprintf("f%d", seq))

		if !link {
			if err2 := os.WriteFile(tmp, data, 0o644); err2 != nil {
				return err2
			}

			return os.Rename(tmp, name(k))
		}

		target := filepath.Join(targets, fmt.Sprintf("t%d", seq))

		switch {
		case st == "dir":
			if err2 := os.Mkdir(target, 0o755); err2 != nil {
				return err2
			}
		case exists:
			if err2 := os.WriteFile(target, data, 0o644); err2 != nil {
				return err2
			}
		}

		if err2 := os.Symlink(target, tmp); err2 != nil {
			return err2
		}

		return os.Rename(tmp, name(k))
	}

	for _, f := range getArr(c, "init") {
		fm := obj(f)
		if err = setFile(getInt(fm, "k"), obj(fm["file"])); err != nil {
			return nil, err
		}
	}

	conf := &config.Configuration{Providers: config.RuleProviders{
		FileSystem: map[string]any{"src": dir, "watch": live},
	}}

	prov, err := filesystem.NewProvider(conf, env.proc, c18Logger())
	if err != nil {
		return nil, err
	}

	ctx := context.Background()
	env.proc.setRej(obj(c["start"]))

	var startErr error

	during := getArr(c, "during")
	if live && len(during) > 0 {
		// files are replaced while Start is inside the first processor call of its initial load: the call is held,
		// the files are moved in, whoever else handles rule files at that time (nobody, on one goroutine) gets the
		// chance to do so, then the call is let go
		gate := newC18Gate()
		env.proc.gate = gate
		done := make(chan error, 1)
		finished := false

		go func() { done <- prov.Start(ctx) }()

		held := false

		if !c18Await(func() bool {
			select {
			case <-gate.entered:
				held = true

				return true
			case startErr = <-done:
				finished = true

				return true
			default:
				return false
			}
		}) {
			return nil, errors.New("file system provider neither called the processor nor returned from Start")
		}

		if held {
			for _, f := range during {
				fm := obj(f)
				if err = setFile(getInt(fm, "k"), obj(fm["file"])); err != nil {
					close(gate.release)

					return nil, err
				}
			}

			for i := 0; i < 400 && gate.count() < 2; i++ {
				time.Sleep(500 * time.Microsecond)
			}

			close(gate.release)
		}

		if !finished {
			if !c18Await(func() bool {
				select {
				case startErr = <-done:
					return true
				default:
					return false
				}
			}) {
				return nil, errors.New("file system provider did not return from Start")
			}
		}
	} else {
		startErr = prov.Start(ctx)
	}

	defer prov.Stop(ctx) //nolint:errcheck

	steps := []any{}

	if live && startErr != nil {
		// the watcher is only set up after the initial load succeeded; heimdall would not come up
		out := map[string]any{"start": env.snapshot(filesystem.VerifC18States(prov), startErr), "steps": steps}

		return out, nil
	}

	// live mode: wait until the provider has handled every notification sent so far. A sentinel file is moved in;
	// fsnotify delivers in order and watchFiles handles one event at a time, so once the sentinel's OnCreated has
	// been seen all earlier notifications have been handled. The sentinel is removed again the same way.
	barrier := func() error {
		seq++
		sn := filepath.Join(dir, fmt.Sprintf("zz%d.yaml", seq))
		tmp := filepath.Join(stage, fmt.Sprintf("z%d", seq))

		if err2 := os.WriteFile(tmp, c18Doc(900001+5*seq, false), 0o644); err2 != nil {
			return err2
		}

		if err2 := os.Rename(tmp, sn); err2 != nil {
			return err2
		}

		for _, want := range []string{"created", "deleted"} {
			if !c18Await(func() bool {
				select {
				case got := <-env.proc.seen:
					return strings.HasPrefix(got, want+" ")
				default:
					return false
				}
			}) {
				return errors.New("file system provider did not handle the sentinel notification")
			}

			if want == "created" {
				if err2 := os.Remove(sn); err2 != nil {
					return err2
				}
			}
		}

		return nil
	}

	if live && len(during) > 0 {
		// the source has settled: everything notified so far has been handled
		if err = barrier(); err != nil {
			return nil, err
		}
	}

	out := map[string]any{"start": env.snapshot(filesystem.VerifC18States(prov), startErr)}

	for _, s := range getArr(c, "steps") {
		step := obj(s)
		env.proc.setRej(step)

		k := getInt(step, "k")

		if !live {
			if err = setFile(k, obj(step["file"])); err != nil {
				return nil, err
			}

			evErr := filesystem.VerifC18Event(prov, fsnotify.Event{Name: name(k), Op: c18FsOp(getStrs(step, "ops"))})
			steps = append(steps, env.snapshot(filesystem.VerifC18States(prov), evErr))

			continue
		}

		switch getStr(step, "do") {
		case "put":
			err = setFile(k, obj(step["file"]))
		case "rm":
			err = os.Remove(name(k))
		case "mv":
			err = os.Rename(name(k), name(getInt(step, "to")))
		case "mvout":
			seq++
			err = os.Rename(name(k), filepath.Join(away, fmt.Sprintf("a%d", seq)))
		case "chmod":
			err = os.Chmod(name(k), os.FileMode(0o600+getInt(step, "mode")%2*0o44))
		case "trunc":
			err = os.Truncate(name(k), 0)
		case "write":
			// overwrite in place with one write call: the new version has the same length as the old one
			data, _ := env.bytesOf(obj(step["file"]))

			var fh *os.File
			if fh, err = os.OpenFile(name(k), os.O_WRONLY, 0); err == nil {
				_, err = fh.WriteAt(data, 0)
				_ = fh.Close()
			}
		}

		if err != nil {
			return nil, fmt.Errorf("file operation %v failed: %w", step, err)
		}

		if err = barrier(); err != nil {
			return nil, err
		}

		snap := env.snapshot(filesystem.VerifC18States(prov), nil)
		delete(snap, "err")
		steps = append(steps, snap)
	}

	out["steps"] = steps

	return out, nil
}


// ---------------------------------------------------------------------------------------------------------------
// transport-level damage of an otherwise valid answer

// c18CutAt is the number of bytes of a document of n bytes that get through: "at" counted from the start (default),
// from the middle ("rel": "mid") or back from the last byte ("rel": "end", at = 0: one byte short); always a proper
// prefix (0 <= result < n)
func c18CutAt(spec map[string]any, n int) int {
	k := getInt(spec, "at")

	switch getStr(spec, "rel") {
	case "mid":
		k += n / 2
	case "end":
		k = n - 1 - k
	}

	if k > n-1 {
		k = n - 1
	}

	if k < 0 {
		k = 0
	}

	return k
}

// c18WriteCut answers on the raw connection with status 200 and the given headers, damaged as spec["how"] says:
//
//	"short"    Content-Length announces the whole document, the connection is closed after k bytes of it
//	"chunk"    chunked transfer encoding, one chunk announced for the whole document, broken off after k bytes of it
//	"chunkend" chunked transfer encoding, a complete chunk of k bytes, then the connection is closed without the
//	           terminating zero-length chunk
//	"over"     Content-Length announces k bytes only, the whole document is sent (a client reads the announced k bytes)
//
// "rst": true closes with a reset instead of an orderly close (not for "over": the announced part must arrive).
func c18WriteCut(conn net.Conn, status int, header http.Header, data []byte, spec map[string]any) {
	k := c18CutAt(spec, len(data))

	var buf bytes.Buffer

	fmt.Fprintf(&buf, "HTTP/1.1 %d %s\r\n", status, http.StatusText(status))

	for name, vals := range header {
		switch http.CanonicalHeaderKey(name) {
		case "Content-Length", "Transfer-Encoding", "Connection":
			continue
		}

		for _, v := range vals {
			fmt.Fprintf(&buf, "%s: %s\r\n", name, v)
		}
	}

	buf.WriteString("Connection: close\r\n")

	how := getStr(spec, "how")

	switch how {
	case "chunk":
		fmt.Fprintf(&buf, "Transfer-Encoding: chunked\r\n\r\n%x\r\n", len(data))
		buf.Write(data[:k])
	case "chunkend":
		buf.WriteString("Transfer-Encoding: chunked\r\n\r\n")

		if k > 0 {
			fmt.Fprintf(&buf, "%x\r\n", k)
			buf.Write(data[:k])
			buf.WriteString("\r\n")
		}
	case "over":
		fmt.Fprintf(&buf, "Content-Length: %d\r\n\r\n", k)
		buf.Write(data)
	default:
		fmt.Fprintf(&buf, "Content-Length: %d\r\n\r\n", len(data))
		buf.Write(data[:k])
	}

	_, _ = conn.Write(buf.Bytes())

	if getBool(spec, "rst") && how != "over" {
		verifCloseNow(conn)

		return
	}

	_ = conn.Close()
}

// c18ServeCut takes the connection of the request over and answers with a damaged 200 response
func c18ServeCut(w http.ResponseWriter, status int, header http.Header, data []byte, spec map[string]any) {
	hj, ok := w.(http.Hijacker)
	if !ok {
		w.WriteHeader(http.StatusInternalServerError)

		return
	}

	conn, _, err := hj.Hijack()
	if err != nil {
		return
	}

	c18WriteCut(conn, status, header, data, spec)
}

// ---------------------------------------------------------------------------------------------------------------
// http_endpoint

// Configured endpoints: case["endpoints"] = [{"host": i, "path": "/rules", "query": "tenant=a"}, ...] (default: n
// endpoints /e0../e<n-1> on one host). Two hosts are two servers on different loopback ports; endpoints may share the
// path and differ in the host or in the query only.
// the test servers ("hosts") live as long as the process: a listener per case would wear out the loopback port range
// when many checks run side by side. Requests are handed to the handler of the case being run.
var c18HTTP struct {
	mu   sync.Mutex
	srvs map[int]*httptest.Server
	cur  func(host int) http.Handler
}

func c18HTTPHost(host int) (*httptest.Server, error) {
	c18HTTP.mu.Lock()
	defer c18HTTP.mu.Unlock()

	if srv := c18HTTP.srvs[host]; srv != nil {
		return srv, nil
	}

	srv, err := c18Server(http.HandlerFunc(func(w http.ResponseWriter, r *http.Request) {
		c18HTTP.mu.Lock()
		cur := c18HTTP.cur
		c18HTTP.mu.Unlock()

		if cur == nil {
			w.WriteHeader(http.StatusServiceUnavailable)

			return
		}

		cur(host).ServeHTTP(w, r)
	}))
	if err != nil {
		return nil, err
	}

	if c18HTTP.srvs == nil {
		c18HTTP.srvs = map[int]*httptest.Server{}
	}

	c18HTTP.srvs[host] = srv

	return srv, nil
}

func runProvHTTP(c map[string]any) (any, error) {
	var (
		mu   sync.Mutex
		resp = map[string]map[string]any{}
	)

	env, err := newC18Env(c, nil)
	if err != nil {
		return nil, err
	}

	handler := func(host int) http.Handler {
		return http.HandlerFunc(func(w http.ResponseWriter, r *http.Request) {
			mu.Lock()
			spec := resp[fmt.Sprintf("%d|%s?%s", host, r.URL.Path, r.URL.RawQuery)]
			mu.Unlock()

			switch getStr(spec, "st") {
			case "status":
				w.WriteHeader(getInt(spec, "code"))
				_, _ = w.Write([]byte("no rule set for you"))
			case "netfail":
				if hj, ok := w.(http.Hijacker); ok {
					if conn, _, err2 := hj.Hijack(); err2 == nil {
						verifCloseNow(conn)
					}
				}
			case "badct":
				data, _ := env.bytesOf(map[string]any{"st": "valid", "v": spec["v"]})

				w.Header().Set("Content-Type", "text/plain")
				_, _ = w.Write(data)
			case "cut":
				// an otherwise valid answer (content v) of which only a part gets through
				data, _ := env.bytesOf(map[string]any{"st": "valid", "v": spec["v"]})
				hdr := http.Header{"Content-Type": {"application/yaml"}}

				if getInt(spec, "v")%5 == 0 {
					hdr.Set("Content-Type", "application/json")
				}

				c18ServeCut(w, http.StatusOK, hdr, data, spec)
			case "emptyct":
				// empty body without a known content type
				w.Header().Set("Content-Type", "text/plain")
				w.WriteHeader(http.StatusOK)
			case "":
				// an endpoint nobody has put anything behind yet
				w.WriteHeader(http.StatusNotFound)
			default:
				data, _ := env.bytesOf(spec)

				if getStr(spec, "st") == "valid" && getInt(spec, "v")%5 == 0 {
					w.Header().Set("Content-Type", "application/json")
				} else {
					w.Header().Set("Content-Type", "application/yaml")
				}

				_, _ = w.Write(data)
			}
		})
	}

	layout := getArr(c, "endpoints")
	if len(layout) == 0 {
		for k := 0; k < getInt(c, "n"); k++ {
			layout = append(layout, map[string]any{"host": 0, "path": fmt.Sprintf("/e%d", k)})
		}
	}

	srvs := map[int]*httptest.Server{}

	c18HTTP.mu.Lock()
	c18HTTP.cur = handler
	c18HTTP.mu.Unlock()

	defer func() {
		c18HTTP.mu.Lock()
		c18HTTP.cur = nil
		c18HTTP.mu.Unlock()
	}()

	eps := []any{}
	urls := []string{}
	keys := []string{}

	for _, l := range layout {
		lm := obj(l)
		host := getInt(lm, "host")

		if srvs[host] == nil {
			srv, err2 := c18HTTPHost(host)
			if err2 != nil {
				return nil, err2
			}

			srvs[host] = srv
		}

		url := srvs[host].URL + getStr(lm, "path")
		if q := getStr(lm, "query"); q != "" {
			url += "?" + q
		}

		urls = append(urls, url)
		keys = append(keys, fmt.Sprintf("%d|%s?%s", host, getStr(lm, "path"), getStr(lm, "query")))
		eps = append(eps, map[string]any{"url": url})
	}

	conf := &config.Configuration{Providers: config.RuleProviders{HTTPEndpoint: map[string]any{"endpoints": eps}}}

	prov, err := httpendpoint.VerifC18New(conf, nil, env.proc, c18Logger())
	if err != nil {
		return nil, err
	}

	defer prov.Close()

	// the source / state key of an endpoint is its id; an id no configured endpoint has stays as it is, one that
	// several configured endpoints share names them all
	env.proc.canon = func(src string) string {
		id := strings.TrimPrefix(src, "http_endpoint:")
		names := []string{}

		for k := range urls {
			if id == prov.EndpointID(k) {
				names = append(names, fmt.Sprintf("s%d", k))
			}
		}

		if len(names) == 0 {
			return src
		}

		return strings.Join(names, "|")
	}

	steps := []any{}

	for _, s := range getArr(c, "steps") {
		step := obj(s)
		env.proc.setRej(step)

		k := getInt(step, "k")
		if k >= len(urls) {
			return nil, errors.New("poll of an endpoint that is not configured")
		}

		spec := obj(step["resp"])

		mu.Lock()
		resp[keys[k]] = spec
		mu.Unlock()

		ctx, cancel := context.WithCancel(context.Background())
		if getStr(spec, "st") == "cancel" {
			cancel()
		}

		pollErr := prov.PollIdx(ctx, k)

		cancel()

		snap := env.snapshot(prov.States(), pollErr)
		delete(snap, "err") // the scheduler drops what the job returns
		steps = append(steps, snap)
	}

	return map[string]any{"steps": steps}, nil
}

// ---------------------------------------------------------------------------------------------------------------
// cloud_blob against an S3 fake

// S3 fakes: separate stores on separate loopback ports. The same bucket name on two of them is two different buckets,
// whose configured urls differ in the query (endpoint=...) only.
type c18Store struct {
	backend *s3mem.Backend
	srv     *httptest.Server
}

var (
	c18S3Mu     sync.Mutex
	c18S3Stores []*c18Store
	c18S3Fail   sync.Map // "<store>/<bucket name>" -> failure kind
	c18S3Cut    sync.Map // "<store>/<bucket name>/<key>" -> how the answer to a GET of that object is damaged
	c18S3Seq    int
)

func c18S3(idx int) *c18Store {
	c18S3Mu.Lock()
	defer c18S3Mu.Unlock()

	for len(c18S3Stores) <= idx {
		n := len(c18S3Stores)
		backend := s3mem.New()
		inner := gofakes3.New(backend).Server()

		srv, err := c18Server(http.HandlerFunc(func(w http.ResponseWriter, r *http.Request) {
			parts := strings.SplitN(strings.TrimPrefix(r.URL.Path, "/"), "/", 2)
			if kind, ok := c18S3Fail.Load(fmt.Sprintf("%d/%s", n, parts[0])); ok {
				switch kind {
				case "comm":
					// an answer the S3 client can classify neither as "not found" nor as anything else it knows
					w.Header().Set("Content-Type", "application/xml")
					w.WriteHeader(http.StatusBadRequest)
					_, _ = w.Write([]byte(`<?xml version="1.0" encoding="UTF-8"?><Error><Code>VerifInjected</Code>` +
						`<Message>injected failure</Message></Error>`))

					return
				case "netfail":
					if hj, ok2 := w.(http.Hijacker); ok2 {
						if conn, _, err := hj.Hijack(); err == nil {
							verifCloseNow(conn)
						}
					}

					return
				}
			}

			if r.Method == http.MethodGet {
				if spec, ok := c18S3Cut.Load(fmt.Sprintf("%d%s", n, r.URL.Path)); ok {
					// the object is there and the store answers properly, but only a part of the body gets through
					rec := httptest.NewRecorder()
					inner.ServeHTTP(rec, r)

					if rec.Code == http.StatusOK {
						c18ServeCut(w, rec.Code, rec.Header(), rec.Body.Bytes(), spec.(map[string]any)) //nolint:forcetypeassert

						return
					}

					for name, vals := range rec.Header() {
						w.Header()[name] = vals
					}

					w.WriteHeader(rec.Code)
					_, _ = w.Write(rec.Body.Bytes())

					return
				}
			}

			inner.ServeHTTP(w, r)
		}))
		if err != nil {
			panic(err)
		}

		c18S3Stores = append(c18S3Stores, &c18Store{backend: backend, srv: srv})
	}

	return c18S3Stores[idx]
}

type c18Bucket struct {
	store  *c18Store
	sidx   int
	name   string
	prefix string
}

func (b *c18Bucket) failKey() string { return fmt.Sprintf("%d/%s", b.sidx, b.name) }

// Configured buckets: case["buckets"] = [{"store": i, "name": n, "prefix": p}, ...] (default: one bucket). Bucket j owns
// the sources 4j..4j+3, stored under the keys <prefix>s0..<prefix>s3.
func runProvBlob(c map[string]any) (any, error) {
	c18S3Mu.Lock()
	c18S3Seq++
	seq := c18S3Seq
	c18S3Mu.Unlock()

	specs := getArr(c, "buckets")
	if len(specs) == 0 {
		specs = []any{map[string]any{}}
	}

	single := getBool(c, "single") && len(specs) == 1
	cuts := []string{}
	buckets := []*c18Bucket{}
	created := map[string]bool{}
	confs := []any{}

	for _, bs := range specs {
		bm := obj(bs)
		b := &c18Bucket{
			sidx: getInt(bm, "store"), name: fmt.Sprintf("verif_%d_%d", seq, getInt(bm, "name")),
			prefix: getStr(bm, "prefix"),
		}
		b.store = c18S3(b.sidx)

		if !created[b.failKey()] {
			if err := b.store.backend.CreateBucket(b.name); err != nil {
				return nil, err
			}

			created[b.failKey()] = true
		}

		url := fmt.Sprintf("s3://%s?endpoint=%s&region=eu-central-1", b.name, b.store.srv.URL)
		if single {
			url = fmt.Sprintf("s3://%s/s0?endpoint=%s&region=eu-central-1", b.name, b.store.srv.URL)
		}

		buckets = append(buckets, b)
		confs = append(confs, map[string]any{"url": url, "prefix": b.prefix})
	}

	defer func() {
		for _, b := range buckets {
			if lst, err := b.store.backend.ListBucket(b.name, nil, gofakes3.ListBucketPage{}); err == nil {
				for _, o := range lst.Contents {
					_, _ = b.store.backend.DeleteObject(b.name, o.Key)
				}
			}

			_ = b.store.backend.DeleteBucket(b.name)
			c18S3Fail.Delete(b.failKey())
		}

		for _, k := range cuts {
			c18S3Cut.Delete(k)
		}
	}()

	env, err := newC18Env(c, nil)
	if err != nil {
		return nil, err
	}

	conf := &config.Configuration{Providers: config.RuleProviders{CloudBlob: map[string]any{"buckets": confs}}}

	prov, err := cloudblob.VerifC18New(conf, env.proc, c18Logger())
	if err != nil {
		return nil, err
	}

	defer prov.Close()

	// "<key>@<bucket id>" -> s<4j+i>; a source that belongs to no configured bucket stays as it is, and one that
	// fits several configured buckets (which must not happen: the id has to tell the buckets apart) names them all
	env.proc.canon = func(src string) string {
		parts := strings.SplitN(src, "@", 2)
		if len(parts) != 2 {
			return src
		}

		names := []string{}

		for j, b := range buckets {
			if parts[1] != prov.BucketID(j) {
				continue
			}

			key := strings.TrimPrefix(strings.TrimPrefix(parts[0], "/"), b.prefix)

			var i int
			if n, err2 := fmt.Sscanf(key, "s%d", &i); n == 1 && err2 == nil && fmt.Sprintf("s%d", i) == key {
				names = append(names, fmt.Sprintf("s%d", 4*j+i))
			}
		}

		if len(names) == 0 {
			return src
		}

		return strings.Join(names, "|")
	}

	steps := []any{}

	for _, s := range getArr(c, "steps") {
		step := obj(s)
		env.proc.setRej(step)

		for _, m := range getArr(step, "set") {
			mm := obj(m)
			k := getInt(mm, "k")
			if k/4 >= len(buckets) {
				return nil, errors.New("blob of a bucket that is not configured")
			}

			b := buckets[k/4]
			key := fmt.Sprintf("%ss%d", b.prefix, k%4)

			if single {
				// the provider takes the path of the configured url, leading slash included, for the key
				key = "/" + key
			}

			spec := obj(mm["blob"])

			// "cut": the blob holds the valid content v, but a GET of it breaks off mid-body for as long as this state
			// lasts (attributes and listing are answered properly)
			cutKey := fmt.Sprintf("%s/%s", b.failKey(), key)
			c18S3Cut.Delete(cutKey)

			if getStr(spec, "st") == "cut" {
				c18S3Cut.Store(cutKey, spec)
				cuts = append(cuts, cutKey)
				spec = map[string]any{"st": "valid", "v": spec["v"]}
			}

			data, exists := env.bytesOf(spec)
			if !exists {
				if _, err = b.store.backend.DeleteObject(b.name, key); err != nil {
					return nil, err
				}

				continue
			}

			ct := "application/yaml"

			switch {
			case getStr(spec, "ct") == "text":
				ct = "text/plain"
			case getStr(spec, "st") == "valid" && getInt(spec, "v")%5 == 0:
				ct = "application/json"
			}

			if _, err = b.store.backend.PutObject(b.name, key, map[string]string{"Content-Type": ct},
				bytes.NewReader(data), int64(len(data))); err != nil {
				return nil, err
			}
		}

		polled := getInt(step, "b")
		if polled >= len(buckets) {
			return nil, errors.New("poll of a bucket that is not configured")
		}

		if f := getStr(step, "fail"); f != "" && f != "cancel" {
			c18S3Fail.Store(buckets[polled].failKey(), f)
		}

		ctx, cancel := context.WithCancel(context.Background())
		if getStr(step, "fail") == "cancel" {
			cancel()
		}

		pollErr := prov.Poll(ctx, polled)

		cancel()
		c18S3Fail.Delete(buckets[polled].failKey())

		states := map[string][]byte{}
		for _, m := range prov.States() {
			for k, h := range m {
				states[k] = h
			}
		}

		snap := env.snapshot(states, pollErr)
		delete(snap, "err") // the scheduler drops what the job returns
		snap["calls"] = c18SortDeletes(snap["calls"].([]any)) //nolint:forcetypeassert
		steps = append(steps, snap)
	}

	return map[string]any{"steps": steps}, nil
}

// the provider removes vanished blobs in the iteration order of a Go map: the leading run of `deleted` calls of a
// poll is sorted by source
func c18SortDeletes(calls []any) []any {
	n := 0
	for n < len(calls) && calls[n].([]string)[0] == "deleted" { //nolint:forcetypeassert
		n++
	}

	c18SortCalls(calls[:n])

	return calls
}

// ---------------------------------------------------------------------------------------------------------------
// kubernetes: the real informer of the provider over a scripted list/watch source

type c18K8sRepo struct {
	mu       sync.Mutex
	items    []v1alpha4.RuleSet
	rv       int
	watchers chan *watch.RaceFreeFakeWatcher
}

func (r *c18K8sRepo) RuleSetRepository(string) v1alpha4.RuleSetRepository { return r }

func (r *c18K8sRepo) List(context.Context, metav1.ListOptions) (*v1alpha4.RuleSetList, error) {
	r.mu.Lock()
	defer r.mu.Unlock()

	lst := &v1alpha4.RuleSetList{
		TypeMeta: metav1.TypeMeta{APIVersion: v1alpha4.GroupName + "/" + v1alpha4.GroupVersion, Kind: "RuleSetList"},
		ListMeta: metav1.ListMeta{ResourceVersion: fmt.Sprint(r.rv)},
	}

	for i := range r.items {
		lst.Items = append(lst.Items, *r.items[i].DeepCopy())
	}

	return lst, nil
}

func (r *c18K8sRepo) Watch(context.Context, metav1.ListOptions) (watch.Interface, error) {
	w := watch.NewRaceFreeFake()
	r.watchers <- w

	return w, nil
}

func (r *c18K8sRepo) Get(_ context.Context, key types.NamespacedName, _ metav1.GetOptions) (*v1alpha4.RuleSet, error) {
	r.mu.Lock()
	defer r.mu.Unlock()

	for i := range r.items {
		if r.items[i].Name == key.Name {
			return r.items[i].DeepCopy(), nil
		}
	}

	return &v1alpha4.RuleSet{}, nil
}

func (r *c18K8sRepo) PatchStatus(context.Context, v1alpha4.Patch, metav1.PatchOptions) (*v1alpha4.RuleSet, error) {
	return &v1alpha4.RuleSet{}, nil
}

const c18Class = "verif"

func (r *c18K8sRepo) object(k int, spec map[string]any) *v1alpha4.RuleSet {
	return r.named(fmt.Sprintf("s%d", k), spec)
}

func (r *c18K8sRepo) named(name string, spec map[string]any) *v1alpha4.RuleSet {
	r.mu.Lock()
	r.rv++
	rv := r.rv
	r.mu.Unlock()

	cls := c18Class
	if c, ok := spec["cls"].(bool); ok && !c {
		cls = "other"
	}

	rs := &v1alpha4.RuleSet{
		TypeMeta: metav1.TypeMeta{APIVersion: v1alpha4.GroupName + "/" + v1alpha4.GroupVersion, Kind: "RuleSet"},
		ObjectMeta: metav1.ObjectMeta{
			Name: name, Namespace: "ns", ResourceVersion: fmt.Sprint(rv),
			UID: types.UID(fmt.Sprintf("%su%d", name, getInt(spec, "uid"))), Generation: int64(getInt(spec, "gen")),
		},
		Spec: v1alpha4.RuleSetSpec{AuthClassName: cls},
	}

	v := getInt(spec, "v")
	rs.Spec.Rules = []rconfig.Rule{{
		ID:      fmt.Sprintf("v%d", v),
		Matcher: rconfig.Matcher{Routes: []rconfig.Route{{Path: fmt.Sprintf("/c%d", c18Path(v))}}},
		Execute: []config.MechanismConfig{{"authenticator": "a"}},
	}}

	if getBool(spec, "bad") {
		rs.Spec.Rules[0].Execute = []config.MechanismConfig{{"authorizer": "none"}}
	}

	return rs
}

var c18PanicOnce sync.Once

var c18Panics struct {
	mu sync.Mutex
	n  int
}

func runProvK8s(c map[string]any) (any, error) {
	// a panic inside the informer's goroutine would kill the process; count it instead and let the loop go on
	c18PanicOnce.Do(func() {
		utilruntime.ReallyCrash = false
		utilruntime.PanicHandlers = append(utilruntime.PanicHandlers, func(context.Context, any) {
			c18Panics.mu.Lock()
			c18Panics.n++
			c18Panics.mu.Unlock()
		})
	})

	c18Panics.mu.Lock()
	c18Panics.n = 0
	c18Panics.mu.Unlock()

	env, err := newC18Env(c, func(src string) string {
		parts := strings.Split(src, ":")

		return parts[len(parts)-1]
	})
	if err != nil {
		return nil, err
	}

	env.proc.rejKey = func(src string) string { return src[:strings.LastIndex(src, "u")] }

	repo := &c18K8sRepo{watchers: make(chan *watch.RaceFreeFakeWatcher, 16), rv: 100}

	setItem := func(rs *v1alpha4.RuleSet, remove bool) {
		repo.mu.Lock()
		defer repo.mu.Unlock()

		items := repo.items[:0:0]
		for _, it := range repo.items {
			if it.Name != rs.Name {
				items = append(items, it)
			}
		}

		if !remove {
			items = append(items, *rs.DeepCopy())
		}

		sort.Slice(items, func(i, j int) bool { return items[i].Name < items[j].Name })
		repo.items = items
	}

	for _, o := range getArr(c, "init") {
		om := obj(o)
		setItem(repo.object(getInt(om, "k"), obj(om["obj"])), false)
	}

	conf := &config.Configuration{Providers: config.RuleProviders{Kubernetes: map[string]any{"auth_class": c18Class}}}

	prov, err := kubernetes.VerifC18New(conf, env.proc, env.factory, repo, c18Logger())
	if err != nil {
		return nil, err
	}

	env.proc.setRej(obj(c["start"]))

	if err = prov.Start(context.Background()); err != nil {
		return nil, err
	}

	defer func() {
		ctx, cancel := context.WithTimeout(context.Background(), 5*time.Second)
		_ = prov.Stop(ctx)

		cancel()
	}()

	var w *watch.RaceFreeFakeWatcher

	watches := 0
	nextWatcher := func() error {
		if c18Await(func() bool {
			select {
			case w = <-repo.watchers:
				watches++

				return true
			default:
				return false
			}
		}) {
			return nil
		}

		return fmt.Errorf("the informer did not open a watch (%d opened so far, current one stopped: %v)",
			watches, w != nil && w.IsStopped())
	}

	seq := 0
	// the informer handles one notification at a time, in order: once an object sent afterwards (of a foreign
	// authentication class, so the provider ignores it) is in the informer's store, everything before it is handled
	barrier := func() error {
		seq++
		sn := repo.named(fmt.Sprintf("zz%d", seq), map[string]any{"cls": false, "uid": 0, "gen": 1, "v": 900000 + seq})
		setItem(sn, false)
		w.Add(sn)

		if c18Await(func() bool {
			_, ok, _ := prov.Store().GetByKey("ns/" + sn.Name)

			return ok
		}) {
			return nil
		}

		return errors.New("the informer did not handle the sentinel notification")
	}

	panics := func() int {
		c18Panics.mu.Lock()
		defer c18Panics.mu.Unlock()

		n := c18Panics.n
		c18Panics.n = 0

		return n
	}

	snapshot := func(sorted bool) map[string]any {
		snap := env.snapshot(nil, nil)
		delete(snap, "err")
		delete(snap, "book")

		if sorted {
			snap["calls"] = c18SortCalls(snap["calls"].([]any)) //nolint:forcetypeassert
		}

		snap["panic"] = panics() > 0

		return snap
	}

	if err = nextWatcher(); err != nil {
		return nil, err
	}

	if err = barrier(); err != nil {
		return nil, err
	}

	out := map[string]any{"start": snapshot(true)}
	steps := []any{}

	for _, s := range getArr(c, "steps") {
		step := obj(s)
		env.proc.setRej(step)

		switch ev := getStr(step, "ev"); ev {
		case "add", "mod", "del":
			rs := repo.object(getInt(step, "k"), obj(step["obj"]))
			setItem(rs, ev == "del")

			switch ev {
			case "add":
				w.Add(rs)
			case "mod":
				w.Modify(rs)
			case "del":
				w.Delete(rs)
			}
		case "relist":
			// the watch breaks with "410 Gone"; what happened meanwhile is only visible in the next list
			repo.mu.Lock()
			kept := repo.items[:0:0]

			for _, it := range repo.items {
				if strings.HasPrefix(it.Name, "zz") {
					kept = append(kept, it)
				}
			}

			repo.items = kept
			repo.mu.Unlock()

			for _, o := range getArr(step, "objs") {
				om := obj(o)
				setItem(repo.object(getInt(om, "k"), obj(om["obj"])), false)
			}

			w.Error(&metav1.Status{
				Status: metav1.StatusFailure, Code: http.StatusGone, Reason: metav1.StatusReasonExpired,
				Message: "too old resource version",
			})

			if err = nextWatcher(); err != nil {
				return nil, err
			}
		}

		if err = barrier(); err != nil {
			// a panic in the notification handler leaves the informer in its retry pause; report what was seen
			if panics() > 0 {
				snap := snapshot(true)
				snap["panic"] = true
				steps = append(steps, snap)

				break
			}

			return nil, err
		}

		steps = append(steps, snapshot(getStr(step, "ev") == "relist"))
	}

	out["steps"] = steps

	return out, nil
}
