package main

// Families c10store / c10mech / c10http (property C10: nothing is reused from a cache beyond its validity).
//
// The real mechanisms (created through the exported CreatePrototype factories from configuration maps, overridden
// through WithConfig), the real endpoint client with the real httpcache.RoundTripper, the real in-memory cache and the
// real Redis cache (against miniredis) are driven in-process; remote parties are one loopback test server on a port
// from the kernel. Time is simulated: the mechanisms only relate time.Now() to expiry values handed out by the remote
// party, so a request "dt seconds later" is a request now against a cache whose clock was advanced by dt and a remote
// party whose answers are expressed relative to now. Wherever the code under test reads the wall clock with second
// granularity a same-second guard re-runs the whole case.

import (
	"bytes"
	"context"
	"crypto/ecdsa"
	"crypto/elliptic"
	"crypto/rand"
	"crypto/x509"
	"crypto/x509/pkix"
	"encoding/base64"
	"encoding/json"
	"encoding/pem"
	"errors"
	"fmt"
	"io"
	"math/big"
	"net/http"
	"net/http/httptest"
	"os"
	"path/filepath"
	"strconv"
	"strings"
	"sync"
	"time"

	"github.com/alicebob/miniredis/v2"
	"github.com/go-jose/go-jose/v4"
	"github.com/go-jose/go-jose/v4/jwt"
	"github.com/rs/zerolog"

	"github.com/dadrus/heimdall/internal/cache"
	"github.com/dadrus/heimdall/internal/cache/memory"
	"github.com/dadrus/heimdall/internal/cache/redis"
	"github.com/dadrus/heimdall/internal/heimdall"
	"github.com/dadrus/heimdall/internal/keyholder"
	"github.com/dadrus/heimdall/internal/otel/metrics/certificate"
	"github.com/dadrus/heimdall/internal/rules/endpoint"
	"github.com/dadrus/heimdall/internal/rules/mechanisms/authenticators"
	"github.com/dadrus/heimdall/internal/rules/mechanisms/authorizers"
	"github.com/dadrus/heimdall/internal/rules/mechanisms/contextualizers"
	"github.com/dadrus/heimdall/internal/rules/mechanisms/finalizers"
	"github.com/dadrus/heimdall/internal/rules/mechanisms/oauth2"
	"github.com/dadrus/heimdall/internal/rules/mechanisms/subject"
	"github.com/dadrus/heimdall/internal/watcher"
)

func init() {
	families["c10store"] = runC10Store
	families["c10mech"] = runC10Mech
	families["c10http"] = runC10HTTP
}

// per-step data exchanged between c10RunSteps and the executors (cases run one after another)
var (
	c10CurStep map[string]any // the step being executed
	c10Extra   map[string]any // additional observables of the step, merged into its result
)

var errC10Retry = errors.New("c10: wall clock moved across a guard, case must be re-run")

const c10MaxRetries = 60

// ---------------------------------------------------------------------------------------------------------------
// caches: backends with simulated time + a recorder in front of them

type c10Backend interface {
	cache.Cache
	advance(d time.Duration)
	close()
}

// virtual cache: the TTL-store semantics of the in-memory cache with a clock that only moves through advance().
// How a non-positive TTL is treated is not assumed but taken from the real in-memory cache (probed once).
type c10VEntry struct {
	val     []byte
	orig    []byte // what was written (val may have been aged)
	until   time.Duration
	forever bool
}

type c10Virtual struct {
	now              time.Duration
	nonPositiveStays bool
	m                map[string]c10VEntry
	// aging: when the clock is advanced, absolute time stamps inside cached JSON documents ("exp", "iat", "nbf")
	// are moved into the past by the same amount. The code under test reads the wall clock, which does not move
	// with the simulated time; a document that was cached dt seconds ago must look dt seconds older to it (the
	// introspection authenticator re-validates a cached response against the wall clock on every hit).
	aging      bool
	lastOrigin []byte
}

func (c *c10Virtual) Start(context.Context) error { return nil }
func (c *c10Virtual) Stop(context.Context) error  { return nil }
func (c *c10Virtual) advance(d time.Duration) {
	c.now += d

	if !c.aging || d < time.Second {
		return
	}

	for k, e := range c.m {
		dec := json.NewDecoder(bytes.NewReader(e.val))
		dec.UseNumber()

		var doc map[string]any
		if dec.Decode(&doc) != nil {
			continue
		}

		changed := false

		for _, f := range []string{"exp", "iat", "nbf"} {
			if n, ok := doc[f].(json.Number); ok {
				if v, err := n.Int64(); err == nil {
					doc[f] = json.Number(strconv.FormatInt(v-int64(d/time.Second), 10))
					changed = true
				}
			}
		}

		if changed {
			if raw, err := json.Marshal(doc); err == nil {
				e.val = raw
				c.m[k] = e
			}
		}
	}
}
func (c *c10Virtual) close() {}

func (c *c10Virtual) Get(_ context.Context, key string) ([]byte, error) {
	e, ok := c.m[key]
	// ttlcache: expired iff expiresAt.Before(now), i.e. still served at the very instant of expiry
	if !ok || (!e.forever && e.until < c.now) {
		return nil, memory.ErrNoCacheEntry
	}

	c.lastOrigin = e.orig

	return e.val, nil
}

func (c *c10Virtual) Set(_ context.Context, key string, value []byte, ttl time.Duration) error {
	if ttl <= 0 {
		if c.nonPositiveStays {
			c.m[key] = c10VEntry{val: value, orig: value, forever: true}
		}

		return nil
	}

	// whole seconds, rounded up: the code under test loses some microseconds between reading the clock and
	// calling Set; in the simulation an entry lives for the TTL it was meant to get (never shorter)
	if ttl%time.Second != 0 {
		ttl = (ttl/time.Second + 1) * time.Second
	}

	c.m[key] = c10VEntry{val: value, orig: value, until: c.now + ttl}

	return nil
}

var (
	c10ProbeOnce        sync.Once
	c10NonPositiveStays bool
)

// what the real in-memory cache does with a non-positive TTL (so that the virtual cache mirrors the current tree)
func c10ProbeMemory() bool {
	c10ProbeOnce.Do(func() {
		cch, err := memory.NewCache(nil, nil, nil)
		if err != nil {
			return
		}

		_ = cch.Set(context.Background(), "probe", []byte("x"), 0)
		_, err = cch.Get(context.Background(), "probe")
		c10NonPositiveStays = err == nil
	})

	return c10NonPositiveStays
}

// the real in-memory cache; its clock is the wall clock, so only scenarios without time steps use it
type c10Memory struct{ cache.Cache }

func (c *c10Memory) advance(time.Duration) {}
func (c *c10Memory) close()                {} // never started, so there is nothing to stop

// the real Redis cache of heimdall talking to one miniredis instance, time moves through FastForward
type c10Redis struct{ cache.Cache }

var (
	c10MiniOnce sync.Once
	c10Mini     *miniredis.Miniredis
	c10RedisCch cache.Cache
	c10RedisErr error
)

func c10RedisBackend() (*c10Redis, error) {
	c10MiniOnce.Do(func() {
		c10Mini, c10RedisErr = miniredis.Run()
		if c10RedisErr != nil {
			return
		}

		c10RedisCch, c10RedisErr = redis.NewStandaloneCache(map[string]any{
			"address":      c10Mini.Addr(),
			"client_cache": map[string]any{"disabled": true},
			"tls":          map[string]any{"disabled": true},
		}, nil, nil)
	})

	if c10RedisErr != nil {
		return nil, c10RedisErr
	}

	c10Mini.FlushAll()

	return &c10Redis{Cache: c10RedisCch}, nil
}

func (c *c10Redis) advance(d time.Duration) {
	if d > 0 {
		c10Mini.FastForward(d)
	}
}
func (c *c10Redis) close() {}

func c10NewBackend(kind string, aging bool) (c10Backend, error) {
	switch kind {
	case "virtual":
		return &c10Virtual{m: map[string]c10VEntry{}, nonPositiveStays: c10ProbeMemory(), aging: aging}, nil
	case "memory":
		cch, err := memory.NewCache(nil, nil, nil)
		if err != nil {
			return nil, err
		}

		return &c10Memory{Cache: cch}, nil
	case "redis":
		return c10RedisBackend()
	}

	return nil, fmt.Errorf("unknown store kind %q", kind)
}

type c10SetRec struct {
	ttl  time.Duration
	step int
	val  []byte
	key  string
}

// The recorder also replaces the cache key chosen by the code under test by the logical key of the step (every
// scenario step touches exactly one logical entry): which requests share an entry is the subject of C11, and
// Endpoint.Hash depends on map iteration order.
type c10Recorder struct {
	inner   c10Backend
	logical string
	step    int
	gets    int
	hitFrom int // step whose Set produced the value returned by the last successful Get of this step, -1 = none
	sets    []c10SetRec
	all     []c10SetRec
}

func (r *c10Recorder) Start(ctx context.Context) error { return r.inner.Start(ctx) }
func (r *c10Recorder) Stop(ctx context.Context) error  { return r.inner.Stop(ctx) }

func (r *c10Recorder) Get(ctx context.Context, key string) ([]byte, error) {
	r.gets++
	key = r.logical

	val, err := r.inner.Get(ctx, key)
	if err == nil {
		written := val
		if v, ok := r.inner.(*c10Virtual); ok && v.lastOrigin != nil {
			written = v.lastOrigin
		}

		for i := len(r.all) - 1; i >= 0; i-- {
			if r.all[i].key == key && bytes.Equal(r.all[i].val, written) {
				r.hitFrom = r.all[i].step

				break
			}
		}
	}

	return val, err
}

func (r *c10Recorder) Set(ctx context.Context, key string, value []byte, ttl time.Duration) error {
	key = r.logical
	rec := c10SetRec{ttl: ttl, step: r.step, val: bytes.Clone(value), key: key}
	r.sets = append(r.sets, rec)
	r.all = append(r.all, rec)

	return r.inner.Set(ctx, key, value, ttl)
}

func (r *c10Recorder) begin(step, key int) {
	r.step, r.gets, r.hitFrom, r.sets = step, 0, -1, nil
	r.logical = "entry-" + strconv.Itoa(key)
}

// TTL of the Set call of this step in whole seconds (rounded up: the code under test loses a few microseconds
// between reading the clock and calling Set), nil if there was none
func (r *c10Recorder) setSeconds() any {
	if len(r.sets) == 0 {
		return nil
	}

	ttl := r.sets[len(r.sets)-1].ttl
	secs := ttl / time.Second

	if ttl > 0 && ttl%time.Second != 0 {
		secs++
	}

	return int64(secs)
}

// ---------------------------------------------------------------------------------------------------------------
// heimdall.Context for one request

type c10ReqFuncs struct{ headers map[string]string }

func (f *c10ReqFuncs) Header(name string) string  { return f.headers[name] }
func (f *c10ReqFuncs) Cookie(string) string       { return "" }
func (f *c10ReqFuncs) Headers() map[string]string { return f.headers }
func (f *c10ReqFuncs) Body() any                  { return nil }

type c10Ctx struct {
	app      context.Context //nolint:containedctx
	req      *heimdall.Request
	upstream http.Header
	outputs  map[string]any
}

func (c *c10Ctx) Request() *heimdall.Request          { return c.req }
func (c *c10Ctx) AddHeaderForUpstream(n, v string)    { c.upstream.Add(n, v) }
func (c *c10Ctx) AddCookieForUpstream(string, string) {}
func (c *c10Ctx) AppContext() context.Context         { return c.app }
func (c *c10Ctx) SetPipelineError(error)              {}
func (c *c10Ctx) Outputs() map[string]any             { return c.outputs }

func c10NewCtx(cch cache.Cache, headers map[string]string) *c10Ctx {
	app := cache.WithContext(zerolog.Nop().WithContext(context.Background()), cch)

	return &c10Ctx{
		app: app,
		req: &heimdall.Request{
			RequestFunctions: &c10ReqFuncs{headers: headers},
			Method:           http.MethodGet,
			URL:              &heimdall.URL{},
		},
		upstream: http.Header{},
		outputs:  map[string]any{},
	}
}

type c10Creation struct{}

type c10Watcher struct{}

func (c10Watcher) Add(string, watcher.ChangeListener) error { return nil }

type c10Observer struct{}

func (c10Observer) Add(certificate.Supplier) {}
func (c10Observer) Start() error             { return nil }

type c10KeyHolders struct{}

func (c10KeyHolders) AddKeyHolder(keyholder.KeyHolder) {}
func (c10KeyHolders) Keys() []jose.JSONWebKey          { return nil }

func (c10Creation) Watcher() watcher.Watcher                  { return c10Watcher{} }
func (c10Creation) KeyHolderRegistry() keyholder.Registry     { return c10KeyHolders{} }
func (c10Creation) CertificateObserver() certificate.Observer { return c10Observer{} }

// ---------------------------------------------------------------------------------------------------------------
// the remote party (one loopback server for all cases; cases run one after another)

type c10Remote struct {
	mu    sync.Mutex
	calls int
	sec   int64 // second in which the last answer was produced
	// what to answer in the current step
	exp     *int64  // remaining lifetime in seconds, nil = no expiry information
	chain   []int64 // JWK only: remaining lifetimes of the further x5c elements (issuing CAs, nearest first)
	step    int
	keyIdx  int
	httpRes map[string]any
}

var (
	c10SrvOnce sync.Once
	c10Srv     *httptest.Server
	c10Rem     = &c10Remote{}
	c10PKI     *c10Pki
	c10PKIErr  error
	c10TmpDir  string
)

const c10Issuer = "https://issuer.c10.test"

// the remote party answers strictly inside a second and not in its last 150 ms: expiry values are expressed in
// whole seconds relative to that second, and the code under test reads the clock a little later
func c10Now() time.Time {
	for {
		now := time.Now()
		if ns := now.Nanosecond(); ns >= 2000 && ns <= 850_000_000 {
			return now
		}

		time.Sleep(50 * time.Microsecond)
	}
}

func c10Server() *httptest.Server {
	c10SrvOnce.Do(func() {
		mux := http.NewServeMux()
		mux.HandleFunc("/introspect", func(w http.ResponseWriter, _ *http.Request) {
			c10Rem.mu.Lock()
			defer c10Rem.mu.Unlock()

			now := c10Now()
			c10Rem.calls++
			c10Rem.sec = now.Unix()

			resp := map[string]any{"active": true, "sub": "user", "iss": c10Issuer, "serial": c10Rem.step}
			if c10Rem.exp != nil {
				resp["exp"] = now.Unix() + *c10Rem.exp
			}

			w.Header().Set("Content-Type", "application/json")
			_ = json.NewEncoder(w).Encode(resp)
		})
		mux.HandleFunc("/session", func(w http.ResponseWriter, _ *http.Request) {
			c10Rem.mu.Lock()
			defer c10Rem.mu.Unlock()

			now := c10Now()
			c10Rem.calls++
			c10Rem.sec = now.Unix()

			resp := map[string]any{"sub": "user", "serial": c10Rem.step}
			if c10Rem.exp != nil {
				resp["exp"] = now.Unix() + *c10Rem.exp
			}

			w.Header().Set("Content-Type", "application/json")
			_ = json.NewEncoder(w).Encode(resp)
		})
		mux.HandleFunc("/jwks", func(w http.ResponseWriter, _ *http.Request) {
			c10Rem.mu.Lock()
			defer c10Rem.mu.Unlock()

			now := c10Now()
			c10Rem.calls++
			c10Rem.sec = now.Unix()

			jwk, err := c10PKI.jwk(c10Rem.keyIdx, c10Rem.exp, c10Rem.chain, now, int64(c10Rem.step))
			if err != nil {
				http.Error(w, err.Error(), http.StatusInternalServerError)

				return
			}

			w.Header().Set("Content-Type", "application/json")
			_ = json.NewEncoder(w).Encode(jose.JSONWebKeySet{Keys: []jose.JSONWebKey{jwk}})
		})
		mux.HandleFunc("/token", func(w http.ResponseWriter, _ *http.Request) {
			c10Rem.mu.Lock()
			defer c10Rem.mu.Unlock()

			c10Rem.calls++
			c10Rem.sec = time.Now().Unix()

			resp := map[string]any{"access_token": "tok-" + strconv.Itoa(c10Rem.step), "token_type": "Bearer"}
			if c10Rem.exp != nil {
				resp["expires_in"] = *c10Rem.exp
			}

			w.Header().Set("Content-Type", "application/json")
			_ = json.NewEncoder(w).Encode(resp)
		})
		mux.HandleFunc("/authz", func(w http.ResponseWriter, _ *http.Request) {
			c10Rem.mu.Lock()
			defer c10Rem.mu.Unlock()

			c10Rem.calls++
			w.Header().Set("Content-Type", "application/json")
			_ = json.NewEncoder(w).Encode(map[string]any{"serial": c10Rem.step})
		})
		mux.HandleFunc("/context", func(w http.ResponseWriter, _ *http.Request) {
			c10Rem.mu.Lock()
			defer c10Rem.mu.Unlock()

			c10Rem.calls++
			w.Header().Set("Content-Type", "application/json")
			_ = json.NewEncoder(w).Encode(map[string]any{"serial": c10Rem.step})
		})
		mux.HandleFunc("/res/", c10ServeResource)
		mux.HandleFunc("/meta/", c10ServeResource)

		c10Srv = httptest.NewUnstartedServer(mux)

		if ln, err := verifListen("127.0.0.1:0"); err == nil {
			_ = c10Srv.Listener.Close()
			c10Srv.Listener = ln
		}

		c10Srv.Start()
	})

	return c10Srv
}

// ---------------------------------------------------------------------------------------------------------------
// keys and certificates for the JWT authenticator and the JWT finalizer

type c10Pki struct {
	caKey   *ecdsa.PrivateKey
	caCert  *x509.Certificate
	subKeys []*ecdsa.PrivateKey // keys of the intermediate CAs issued on the fly
	keys    []*ecdsa.PrivateKey
	tokens  []string
	caFile  string
	sigFile string
}

func c10Tmp() (string, error) {
	if c10TmpDir != "" {
		return c10TmpDir, nil
	}

	dir, err := os.MkdirTemp("", "c10-")
	if err != nil {
		return "", err
	}

	c10TmpDir = dir

	return dir, nil
}

func c10InitPKI() (*c10Pki, error) {
	if c10PKI != nil || c10PKIErr != nil {
		return c10PKI, c10PKIErr
	}

	c10PKI, c10PKIErr = func() (*c10Pki, error) {
		dir, err := c10Tmp()
		if err != nil {
			return nil, err
		}

		caKey, err := ecdsa.GenerateKey(elliptic.P256(), rand.Reader)
		if err != nil {
			return nil, err
		}

		now := time.Now()
		tmpl := &x509.Certificate{
			SerialNumber: big.NewInt(1), Subject: pkix.Name{CommonName: "C10 CA"},
			NotBefore: now.Add(-time.Hour), NotAfter: now.Add(240 * time.Hour),
			IsCA: true, BasicConstraintsValid: true, KeyUsage: x509.KeyUsageCertSign | x509.KeyUsageCRLSign,
		}

		raw, err := x509.CreateCertificate(rand.Reader, tmpl, tmpl, &caKey.PublicKey, caKey)
		if err != nil {
			return nil, err
		}

		caCert, err := x509.ParseCertificate(raw)
		if err != nil {
			return nil, err
		}

		p := &c10Pki{caKey: caKey, caCert: caCert, caFile: filepath.Join(dir, "ca.pem"),
			sigFile: filepath.Join(dir, "signer.pem")}

		if err = os.WriteFile(p.caFile, pem.EncodeToMemory(&pem.Block{Type: "CERTIFICATE", Bytes: raw}), 0o600); err != nil {
			return nil, err
		}

		for range 2 {
			key, err := ecdsa.GenerateKey(elliptic.P256(), rand.Reader)
			if err != nil {
				return nil, err
			}

			p.subKeys = append(p.subKeys, key)
		}

		for i := range 3 {
			key, err := ecdsa.GenerateKey(elliptic.P256(), rand.Reader)
			if err != nil {
				return nil, err
			}

			p.keys = append(p.keys, key)

			signer, err := jose.NewSigner(jose.SigningKey{Algorithm: jose.ES256, Key: key},
				new(jose.SignerOptions).WithType("JWT").WithHeader("kid", "kid-"+strconv.Itoa(i)))
			if err != nil {
				return nil, err
			}

			tok, err := jwt.Signed(signer).Claims(map[string]any{
				"iss": c10Issuer, "sub": "user", "exp": now.Add(100 * time.Hour).Unix(),
			}).Serialize()
			if err != nil {
				return nil, err
			}

			p.tokens = append(p.tokens, tok)
		}

		sigKey, err := ecdsa.GenerateKey(elliptic.P256(), rand.Reader)
		if err != nil {
			return nil, err
		}

		der, err := x509.MarshalECPrivateKey(sigKey)
		if err != nil {
			return nil, err
		}

		if err = os.WriteFile(p.sigFile, pem.EncodeToMemory(&pem.Block{Type: "EC PRIVATE KEY", Bytes: der}), 0o600); err != nil {
			return nil, err
		}

		return p, nil
	}()

	return c10PKI, c10PKIErr
}

// jwk builds the JWK of key idx. rel = remaining lifetime of the key's own (end entity) certificate, nil = a JWK
// without certificates. chain = remaining lifetimes of the further x5c elements, nearest issuer first:
//
//	len(chain) == 0: x5c = [ee],           ee  <- root (trust store)
//	len(chain) == 1: x5c = [ee, ca1],      ee  <- ca1 <- root
//	len(chain) == 2: x5c = [ee, ca2, ca1], ee  <- ca2 <- ca1 <- root
//
// every certificate is issued now, with its own NotAfter (whole seconds relative to the current second).
func (p *c10Pki) jwk(idx int, rel *int64, chain []int64, now time.Time, serial int64) (jose.JSONWebKey, error) {
	key := p.keys[idx]
	jwk := jose.JSONWebKey{Key: &key.PublicKey, KeyID: "kid-" + strconv.Itoa(idx), Algorithm: "ES256", Use: "sig"}

	if rel == nil {
		return jwk, nil
	}

	if len(chain) > len(p.subKeys) {
		chain = chain[:len(p.subKeys)]
	}

	issue := func(tmpl *x509.Certificate, pub *ecdsa.PublicKey, issuer *x509.Certificate,
		issuerKey *ecdsa.PrivateKey,
	) (*x509.Certificate, error) {
		raw, err := x509.CreateCertificate(rand.Reader, tmpl, issuer, pub, issuerKey)
		if err != nil {
			return nil, err
		}

		return x509.ParseCertificate(raw)
	}

	// the CAs, from the one issued by the root down to the issuer of the end entity certificate
	issuer, issuerKey := p.caCert, p.caKey

	var cas []*x509.Certificate

	for i := len(chain) - 1; i >= 0; i-- {
		caKey := p.subKeys[i]

		ca, err := issue(&x509.Certificate{
			SerialNumber: big.NewInt(100000 + 10*serial + int64(i)),
			Subject:      pkix.Name{CommonName: "C10 issuing CA " + strconv.Itoa(i)},
			NotBefore:    now.Add(-2 * time.Hour), NotAfter: time.Unix(now.Unix()+chain[i], 0),
			IsCA: true, BasicConstraintsValid: true, KeyUsage: x509.KeyUsageCertSign | x509.KeyUsageCRLSign,
		}, &caKey.PublicKey, issuer, issuerKey)
		if err != nil {
			return jwk, err
		}

		cas = append([]*x509.Certificate{ca}, cas...)
		issuer, issuerKey = ca, caKey
	}

	cert, err := issue(&x509.Certificate{
		SerialNumber: big.NewInt(1000 + serial), Subject: pkix.Name{CommonName: "C10 signer"},
		NotBefore: now.Add(-2 * time.Hour), NotAfter: time.Unix(now.Unix()+*rel, 0),
		KeyUsage: x509.KeyUsageDigitalSignature,
	}, &key.PublicKey, issuer, issuerKey)
	if err != nil {
		return jwk, err
	}

	jwk.Certificates = append([]*x509.Certificate{cert}, cas...)

	return jwk, nil
}

// ---------------------------------------------------------------------------------------------------------------
// mechanisms

type c10Exec func(rec *c10Recorder, key int) (ok bool, err error)

func c10Secs(n int64) string { return strconv.FormatInt(n, 10) + "s" }

func c10OptInt(m map[string]any, k string) *int64 {
	switch v := m[k].(type) {
	case json.Number:
		i, _ := v.Int64()

		return &i
	case float64:
		i := int64(v)

		return &i
	}

	return nil
}

// builds the mechanism of the case: prototype from configuration, then the rule-level override through WithConfig
func c10Build(c map[string]any) (c10Exec, error) {
	srv := c10Server()
	mech := getStr(c, "mech")
	ttl := c10OptInt(c, "ttl")
	ovr := obj(c["ovr"])
	vl := c10OptInt(c, "vl")

	var ovrConf map[string]any
	if ovr != nil {
		ovrConf = map[string]any{}
		if t := c10OptInt(ovr, "ttl"); t != nil {
			ovrConf["cache_ttl"] = c10Secs(*t)
		}
	}

	switch mech {
	case "introspection":
		conf := map[string]any{
			"introspection_endpoint": map[string]any{"url": srv.URL + "/introspect"},
			"assertions":             map[string]any{"issuers": []any{c10Issuer}},
		}
		if vl != nil {
			conf["assertions"].(map[string]any)["validity_leeway"] = c10Secs(*vl) //nolint:forcetypeassert
		}

		if ttl != nil {
			conf["cache_ttl"] = c10Secs(*ttl)
		}

		proto, err := authenticators.CreatePrototype(c10Creation{}, "c10", authenticators.AuthenticatorOAuth2Introspection, conf)
		if err != nil {
			return nil, err
		}

		auth := proto
		if ovrConf != nil {
			if len(ovrConf) == 0 {
				// an override that does not mention cache_ttl
				ovrConf["allow_fallback_on_error"] = false
			}

			if auth, err = proto.WithConfig(ovrConf); err != nil {
				return nil, err
			}
		}

		return func(rec *c10Recorder, key int) (bool, error) {
			ctx := c10NewCtx(rec, map[string]string{"Authorization": "Bearer opaque-" + strconv.Itoa(key)})
			sub, err := auth.Execute(ctx)

			return err == nil && sub != nil, nil
		}, nil
	case "generic":
		sl := map[string]any{"not_after": "exp"}
		if vl != nil {
			sl["validity_leeway"] = c10Secs(*vl)
		}

		conf := map[string]any{
			"identity_info_endpoint":     map[string]any{"url": srv.URL + "/session", "method": "GET"},
			"authentication_data_source": []any{map[string]any{"header": "X-Session"}},
			"subject":                    map[string]any{"id": "sub"},
			"session_lifespan":           sl,
		}
		if ttl != nil {
			conf["cache_ttl"] = c10Secs(*ttl)
		}

		proto, err := authenticators.CreatePrototype(c10Creation{}, "c10", authenticators.AuthenticatorGeneric, conf)
		if err != nil {
			return nil, err
		}

		auth := proto
		if ovrConf != nil {
			if len(ovrConf) == 0 {
				ovrConf["allow_fallback_on_error"] = false
			}

			if auth, err = proto.WithConfig(ovrConf); err != nil {
				return nil, err
			}
		}

		return func(rec *c10Recorder, key int) (bool, error) {
			ctx := c10NewCtx(rec, map[string]string{"X-Session": "session-" + strconv.Itoa(key)})
			sub, err := auth.Execute(ctx)

			return err == nil && sub != nil, nil
		}, nil
	case "jwtkey":
		pki, err := c10InitPKI()
		if err != nil {
			return nil, err
		}

		conf := map[string]any{
			"jwks_endpoint": map[string]any{"url": srv.URL + "/jwks"},
			"assertions":    map[string]any{"issuers": []any{c10Issuer}, "allowed_algorithms": []any{"ES256"}},
			"trust_store":   pki.caFile,
		}
		if ttl != nil {
			conf["cache_ttl"] = c10Secs(*ttl)
		}

		proto, err := authenticators.CreatePrototype(c10Creation{}, "c10", authenticators.AuthenticatorJwt, conf)
		if err != nil {
			return nil, err
		}

		auth := proto
		if ovrConf != nil {
			if len(ovrConf) == 0 {
				ovrConf["allow_fallback_on_error"] = false
			}

			if auth, err = proto.WithConfig(ovrConf); err != nil {
				return nil, err
			}
		}

		return func(rec *c10Recorder, key int) (bool, error) {
			ctx := c10NewCtx(rec, map[string]string{"Authorization": "Bearer " + pki.tokens[key]})
			sub, err := auth.Execute(ctx)

			return err == nil && sub != nil, nil
		}, nil
	case "clientcreds":
		conf := map[string]any{"token_url": srv.URL + "/token", "client_id": "c10", "client_secret": "secret"}
		if ttl != nil {
			conf["cache_ttl"] = c10Secs(*ttl)
		}

		proto, err := finalizers.CreatePrototype(c10Creation{}, "c10", finalizers.FinalizerOAuth2ClientCredentials, conf)
		if err != nil {
			return nil, err
		}

		insts := map[int]finalizers.Finalizer{}

		return func(rec *c10Recorder, key int) (bool, error) {
			fin, ok := insts[key]
			if !ok {
				oc := map[string]any{"scopes": []any{"scope-" + strconv.Itoa(key)}}
				for k, v := range ovrConf {
					oc[k] = v
				}

				if fin, err = proto.WithConfig(oc); err != nil {
					return false, err
				}

				insts[key] = fin
			}

			ctx := c10NewCtx(rec, nil)
			err := fin.Execute(ctx, &subject.Subject{ID: "user"})

			return err == nil && strings.HasPrefix(ctx.upstream.Get("Authorization"), "Bearer tok-"), nil
		}, nil
	case "jwtfin":
		pki, err := c10InitPKI()
		if err != nil {
			return nil, err
		}

		conf := map[string]any{"signer": map[string]any{"key_store": map[string]any{"path": pki.sigFile}}}
		if ttl != nil {
			conf["ttl"] = c10Secs(*ttl)
		}

		// a claims template that tries to supply the registered lifetime claims itself (e.g. to propagate the end
		// of the upstream session); the values come from subject attributes set per request
		tpl := ""

		switch getStr(c, "tpl") {
		case "exp":
			tpl = `{"exp": {{ .Subject.Attributes.sexp }}}`
		case "nbf":
			tpl = `{"nbf": {{ .Subject.Attributes.snbf }}}`
		case "both":
			tpl = `{"exp": {{ .Subject.Attributes.sexp }}, "nbf": {{ .Subject.Attributes.snbf }}}`
		}

		if tpl != "" {
			conf["claims"] = tpl
		}

		proto, err := finalizers.CreatePrototype(c10Creation{}, "c10", finalizers.FinalizerJwt, conf)
		if err != nil {
			return nil, err
		}

		fin := proto
		if ovr != nil {
			oc := map[string]any{}
			if t := c10OptInt(ovr, "ttl"); t != nil {
				oc["ttl"] = c10Secs(*t)
			} else if tpl != "" {
				oc["claims"] = tpl
			} else {
				oc["claims"] = `{"x": "y"}`
			}

			if fin, err = proto.WithConfig(oc); err != nil {
				return nil, err
			}
		}

		return func(rec *c10Recorder, key int) (bool, error) {
			ctx := c10NewCtx(rec, nil)
			sec := c10Now().Unix()
			attrs := map[string]any{}

			// the cache entry is the logical one of the step (see c10Recorder): the attribute values are expressed
			// relative to now, as everything the remote parties say
			if v := c10OptInt(c10CurStep, "sexp"); v != nil {
				attrs["sexp"] = sec + *v
			}

			if v := c10OptInt(c10CurStep, "snbf"); v != nil {
				attrs["snbf"] = sec + *v
			}

			err := fin.Execute(ctx, &subject.Subject{ID: "user-" + strconv.Itoa(key), Attributes: attrs})

			c10Rem.mu.Lock()
			c10Rem.sec = sec
			c10Rem.mu.Unlock()

			header := ctx.upstream.Get("Authorization")
			if err != nil || !strings.HasPrefix(header, "Bearer ") {
				return false, nil //nolint:nilerr
			}

			// what the token that is handed out says about its own lifetime
			parts := strings.Split(strings.TrimPrefix(header, "Bearer "), ".")
			if len(parts) != 3 { //nolint:mnd
				return false, nil
			}

			raw, derr := base64.RawURLEncoding.DecodeString(parts[1])
			if derr != nil {
				return false, nil //nolint:nilerr
			}

			// numbers as the recipient of the token would read them (a template supplied value may be written in
			// exponent notation)
			var claims struct {
				Exp *float64 `json:"exp"`
				Iat *float64 `json:"iat"`
				Nbf *float64 `json:"nbf"`
			}

			if derr = json.Unmarshal(raw, &claims); derr != nil || claims.Exp == nil || claims.Iat == nil {
				return false, nil //nolint:nilerr
			}

			c10Extra = map[string]any{"life": int64(*claims.Exp) - int64(*claims.Iat)}
			if claims.Nbf != nil {
				c10Extra["nbf"] = int64(*claims.Nbf) - int64(*claims.Iat)
			}

			return true, nil
		}, nil
	case "remote":
		conf := map[string]any{
			"endpoint": map[string]any{"url": srv.URL + "/authz"},
			"payload":  "{{ .Subject.ID }}",
		}
		if ttl != nil {
			conf["cache_ttl"] = c10Secs(*ttl)
		}

		proto, err := authorizers.CreatePrototype(c10Creation{}, "c10", authorizers.AuthorizerRemote, conf)
		if err != nil {
			return nil, err
		}

		authz := proto
		if ovrConf != nil {
			if len(ovrConf) == 0 {
				ovrConf["forward_response_headers_to_upstream"] = []any{"X-Foo"}
			}

			if authz, err = proto.WithConfig(ovrConf); err != nil {
				return nil, err
			}
		}

		return func(rec *c10Recorder, key int) (bool, error) {
			ctx := c10NewCtx(rec, nil)
			err := authz.Execute(ctx, &subject.Subject{ID: "user-" + strconv.Itoa(key)})

			return err == nil, nil
		}, nil
	case "contextualizer":
		conf := map[string]any{
			"endpoint": map[string]any{"url": srv.URL + "/context"},
			"payload":  "{{ .Subject.ID }}",
		}
		if ttl != nil {
			conf["cache_ttl"] = c10Secs(*ttl)
		}

		proto, err := contextualizers.CreatePrototype(c10Creation{}, "c10", contextualizers.ContextualizerGeneric, conf)
		if err != nil {
			return nil, err
		}

		cz := proto
		if ovrConf != nil {
			if len(ovrConf) == 0 {
				ovrConf["continue_pipeline_on_error"] = false
			}

			if cz, err = proto.WithConfig(ovrConf); err != nil {
				return nil, err
			}
		}

		return func(rec *c10Recorder, key int) (bool, error) {
			ctx := c10NewCtx(rec, nil)
			err := cz.Execute(ctx, &subject.Subject{ID: "user-" + strconv.Itoa(key)})

			return err == nil, nil
		}, nil
	}

	return nil, fmt.Errorf("unknown mechanism %q", mech)
}

func c10RunSteps(c map[string]any, exec c10Exec, perStep func(step map[string]any)) (any, error) {
	backend, err := c10NewBackend(getStr(c, "store"), getStr(c, "mech") == "introspection")
	if err != nil {
		return nil, err
	}

	defer backend.close()

	rec := &c10Recorder{inner: backend}
	out := []any{}
	started := time.Now()

	for i, s := range getArr(c, "steps") {
		step := obj(s)
		backend.advance(time.Duration(getInt(step, "dt")) * time.Second)

		c10Rem.mu.Lock()
		c10Rem.exp = c10OptInt(step, "exp")
		c10Rem.chain = nil

		for _, v := range getArr(step, "chain") {
			switch n := v.(type) {
			case json.Number:
				i, _ := n.Int64()
				c10Rem.chain = append(c10Rem.chain, i)
			case float64:
				c10Rem.chain = append(c10Rem.chain, int64(n))
			}
		}
		c10Rem.step = i
		c10Rem.keyIdx = getInt(step, "key")
		callsBefore := c10Rem.calls
		c10Rem.sec = 0
		c10Rem.mu.Unlock()

		if perStep != nil {
			perStep(step)
		}

		rec.begin(i, getInt(step, "key"))

		c10CurStep, c10Extra = step, nil

		before := time.Now()
		ok, err := exec(rec, getInt(step, "key"))
		after := time.Now()

		if err != nil {
			return nil, err
		}

		c10Rem.mu.Lock()
		up := c10Rem.calls - callsBefore
		sec := c10Rem.sec
		c10Rem.mu.Unlock()

		// same-second guard: the remote party expressed expiry relative to the second `sec`, the code under
		// test read the clock afterwards and before `after`
		if sec != 0 && (sec != after.Unix() || after.Nanosecond() > 950_000_000) {
			return nil, errC10Retry
		}

		if after.Sub(before) > 800*time.Millisecond {
			return nil, errC10Retry
		}

		src := -1
		if ok {
			src = i
			if up == 0 && rec.hitFrom >= 0 {
				src = rec.hitFrom
			}
		}

		res := map[string]any{
			"ok": ok, "hit": ok && up == 0 && rec.hitFrom >= 0, "src": src, "gets": rec.gets, "up": up,
			"set": rec.setSeconds(),
		}

		if ok {
			for k, v := range c10Extra {
				res[k] = v
			}
		}

		out = append(out, res)
	}

	// the real in-memory cache runs on the wall clock: such scenarios have no time steps and must be over long
	// before the smallest positive TTL (1 s) elapses
	if getStr(c, "store") == "memory" && time.Since(started) > 500*time.Millisecond {
		return nil, errC10Retry
	}

	return out, nil
}

func runC10Mech(c map[string]any) (any, error) {
	for range c10MaxRetries {
		// one instance of the mechanism per entry of "insts" (rule-level settings: override, validity leeway);
		// without "insts" there is one instance with the settings of the case itself. All share the cache.
		var execs []c10Exec

		variants := []map[string]any{c}
		if insts := getArr(c, "insts"); len(insts) != 0 {
			variants = variants[:0]

			for _, in := range insts {
				v := map[string]any{}
				for k, val := range c {
					if k != "ovr" && k != "vl" {
						v[k] = val
					}
				}

				for k, val := range obj(in) {
					v[k] = val
				}

				variants = append(variants, v)
			}
		}

		failed := false

		for _, v := range variants {
			exec, err := c10Build(v)
			if err != nil {
				failed = true

				break
			}

			execs = append(execs, exec)
		}

		if failed {
			return map[string]any{"config_error": true}, nil
		}

		cur := 0
		exec := func(rec *c10Recorder, key int) (bool, error) { return execs[cur](rec, key) }

		res, err := c10RunSteps(c, exec, func(step map[string]any) {
			cur = getInt(step, "inst")
			if cur < 0 || cur >= len(execs) {
				cur = 0
			}
		})
		if errors.Is(err, errC10Retry) {
			time.Sleep(25 * time.Millisecond) // leave the guarded part of the second before trying again

			continue
		}

		return res, err
	}

	return map[string]any{"timing": true}, nil
}

// ---------------------------------------------------------------------------------------------------------------
// HTTP responses of a remote endpoint through endpoint.Endpoint.CreateClient (httpcache.RoundTripper)

func c10ServeResource(w http.ResponseWriter, r *http.Request) {
	c10Rem.mu.Lock()
	defer c10Rem.mu.Unlock()

	now := c10Now()
	c10Rem.calls++
	c10Rem.sec = now.Unix()
	res := c10Rem.httpRes
	base := time.Unix(now.Unix(), 0).UTC()

	var cc []string

	if v := c10OptInt(res, "maxage"); v != nil {
		cc = append(cc, "max-age="+strconv.FormatInt(*v, 10))
	}

	if v := c10OptInt(res, "smaxage"); v != nil {
		cc = append(cc, "s-maxage="+strconv.FormatInt(*v, 10))
	}

	for _, d := range []string{"no-store", "no-cache", "public", "private", "must-revalidate"} {
		if getBool(res, d) {
			cc = append(cc, d)
		}
	}

	if len(cc) != 0 {
		w.Header().Set("Cache-Control", strings.Join(cc, ", "))
	}

	if getBool(res, "badexpires") {
		w.Header().Set("Expires", "0")
	} else if v := c10OptInt(res, "expires"); v != nil {
		w.Header().Set("Expires", base.Add(time.Duration(*v)*time.Second).Format(http.TimeFormat))
	}

	if v := c10OptInt(res, "date"); v != nil {
		w.Header().Set("Date", base.Add(time.Duration(*v)*time.Second).Format(http.TimeFormat))
	} else {
		w.Header()["Date"] = nil // suppress the automatic Date header
	}

	if v := c10OptInt(res, "lastmod"); v != nil {
		w.Header().Set("Last-Modified", base.Add(time.Duration(*v)*time.Second).Format(http.TimeFormat))
	}

	if v := c10OptInt(res, "age"); v != nil {
		w.Header().Set("Age", strconv.FormatInt(*v, 10))
	}

	if getBool(res, "vary") {
		w.Header().Set("Vary", "Accept-Language")
	}

	serial := strconv.Itoa(c10Rem.step)
	w.Header().Set("X-Serial", serial)

	status := getInt(res, "status")
	if status == 0 {
		status = http.StatusOK
	}

	if strings.HasPrefix(r.URL.Path, "/meta/") {
		// an OAuth2 server metadata document; the jwks_uri tells which answer a resolution is based on
		w.Header().Set("Content-Type", "application/json")
		w.WriteHeader(status)
		_ = json.NewEncoder(w).Encode(map[string]any{
			"issuer":   "http://" + r.Host,
			"jwks_uri": "http://" + r.Host + "/jwks/v" + serial,
		})

		return
	}

	w.WriteHeader(status)
	_, _ = w.Write([]byte("body-" + serial))
}

// endpoint settings of an HTTP case: "hc" = the http_cache settings as configured (absent = not configured),
// otherwise caching is enabled with "dttl" as default_ttl
func c10HTTPCacheConf(c map[string]any) *endpoint.HTTPCache {
	hc, configured := c["hc"]
	if !configured {
		if getStr(c, "via") == "metadata" {
			return nil // http_cache not configured: the metadata endpoint applies its own default
		}

		return &endpoint.HTTPCache{Enabled: true, DefaultTTL: time.Duration(getInt(c, "dttl")) * time.Second}
	}

	m := obj(hc)
	if m == nil {
		return nil
	}

	conf := &endpoint.HTTPCache{Enabled: getBool(m, "enabled")}
	if v := c10OptInt(m, "dttl"); v != nil {
		conf.DefaultTTL = time.Duration(*v) * time.Second
	}

	return conf
}

func runC10HTTP(c map[string]any) (any, error) {
	srv := c10Server()
	viaMetadata := getStr(c, "via") == "metadata"

	for range c10MaxRetries {
		var cur map[string]any

		exec := func(rec *c10Recorder, key int) (bool, error) {
			app := cache.WithContext(zerolog.Nop().WithContext(context.Background()), rec)

			if viaMetadata {
				// the server metadata resolution used by the jwt and oauth2_introspection authenticators
				me := oauth2.MetadataEndpoint{
					Endpoint: endpoint.Endpoint{
						URL:       srv.URL + "/meta/" + strconv.Itoa(key),
						HTTPCache: c10HTTPCacheConf(c),
					},
					DisableIssuerIdentifierVerification: true,
				}

				sm, err := me.Get(app, map[string]any{})
				if err != nil {
					return false, nil //nolint:nilerr
				}

				return sm.JWKSEndpoint != nil && strings.Contains(sm.JWKSEndpoint.URL, "/jwks/v"), nil
			}

			method := getStr(cur, "method")
			if method == "" {
				method = getStr(c, "method")
			}

			e := endpoint.Endpoint{
				URL:       srv.URL + "/res/" + strconv.Itoa(key),
				Method:    method,
				HTTPCache: c10HTTPCacheConf(c),
			}

			var body io.Reader
			if getBool(cur, "body") {
				body = strings.NewReader("payload")
			}

			req, err := e.CreateRequest(app, body, nil)
			if err != nil {
				return false, err
			}

			if getBool(cur, "auth") {
				req.Header.Set("Authorization", "Bearer abc")
			}

			if getBool(cur, "reqnostore") {
				req.Header.Set("Cache-Control", "no-store")
			}

			resp, err := e.CreateClient("c10").Do(req)
			if err != nil {
				return false, err
			}

			defer resp.Body.Close()

			_, _ = io.Copy(io.Discard, resp.Body)

			return resp.Header.Get("X-Serial") != "", nil
		}

		res, err := c10RunSteps(c, exec, func(step map[string]any) {
			cur = step
			c10Rem.mu.Lock()
			c10Rem.httpRes = obj(step["resp"])
			c10Rem.mu.Unlock()
		})
		if errors.Is(err, errC10Retry) {
			time.Sleep(25 * time.Millisecond) // leave the guarded part of the second before trying again

			continue
		}

		return res, err
	}

	return map[string]any{"timing": true}, nil
}

// ---------------------------------------------------------------------------------------------------------------
// TTL store semantics of the real caches

const c10Tick = 40 * time.Millisecond

// one session = one cache instance and a list of operations in virtual ticks.
// Redis: 1 tick = 1 s of miniredis time. In-memory: 1 tick = c10Tick of wall clock; every operation must happen in
// the first quarter of its tick and a TTL of m ticks is handed over as (m + 1/2) ticks, so that an entry is
// certainly alive at tick T+m and certainly gone at tick T+m+1 (the instant of expiry itself cannot be observed on
// the wall clock; the model takes ttlcache's reading: still served at the instant of expiry).
func c10StoreSession(kind string, ops []any) (any, error) {
	for range c10MaxRetries {
		res, err := c10StoreSessionOnce(kind, ops)
		if errors.Is(err, errC10Retry) {
			time.Sleep(25 * time.Millisecond) // leave the guarded part of the second before trying again

			continue
		}

		return res, err
	}

	return map[string]any{"timing": true}, nil
}

func c10StoreSessionOnce(kind string, ops []any) (any, error) {
	var (
		cch    cache.Cache
		origin time.Time
		tick   int64
		err    error
	)

	ctx := context.Background()

	switch kind {
	case "memory":
		if cch, err = memory.NewCache(nil, nil, nil); err != nil {
			return nil, err
		}
	case "redis":
		b, err := c10RedisBackend()
		if err != nil {
			return nil, err
		}

		cch = b
	default:
		return nil, fmt.Errorf("unknown store kind %q", kind)
	}

	origin = time.Now()

	inTick := func() error {
		if kind != "memory" {
			return nil
		}

		off := time.Since(origin) - time.Duration(tick)*c10Tick
		if off < 0 || off > c10Tick/4 {
			return errC10Retry
		}

		return nil
	}

	out := []any{}

	for _, o := range ops {
		op := obj(o)
		key := "k" + strconv.Itoa(getInt(op, "k"))

		switch getStr(op, "op") {
		case "adv":
			n := int64(getInt(op, "n"))
			tick += n

			if kind == "memory" {
				time.Sleep(time.Until(origin.Add(time.Duration(tick) * c10Tick)))
			} else {
				c10Mini.FastForward(time.Duration(n) * time.Second)
			}

			out = append(out, "adv")
		case "set":
			ttl := int64(getInt(op, "ttl"))

			var d time.Duration

			switch {
			case kind == "redis":
				d = time.Duration(ttl) * time.Second
			case ttl > 0:
				d = time.Duration(ttl)*c10Tick + c10Tick/2
			default:
				d = time.Duration(ttl) * c10Tick // 0, -1 tick, ... and the raw special values below
			}

			if raw := c10OptInt(op, "rawns"); raw != nil {
				d = time.Duration(*raw) // e.g. -1 and -2: ttlcache.NoTTL / PreviousOrDefaultTTL
			}

			if err = inTick(); err != nil {
				return nil, err
			}

			serr := cch.Set(ctx, key, []byte(strconv.Itoa(getInt(op, "v"))), d)

			if err = inTick(); err != nil {
				return nil, err
			}

			_ = serr // a refused write is observable through the following reads only

			out = append(out, "set")
		default:
			if err = inTick(); err != nil {
				return nil, err
			}

			val, gerr := cch.Get(ctx, key)

			if err = inTick(); err != nil {
				return nil, err
			}

			if gerr != nil {
				out = append(out, nil)
			} else {
				n, _ := strconv.Atoi(string(val))
				out = append(out, n)
			}
		}
	}

	return out, nil
}

func runC10Store(c map[string]any) (any, error) {
	kind := getStr(c, "kind")
	sessions := getArr(c, "sessions")
	out := make([]any, len(sessions))
	errs := make([]error, len(sessions))

	if kind == "redis" {
		// one miniredis instance: sessions run one after another
		for i, s := range sessions {
			out[i], errs[i] = c10StoreSession(kind, getArr(obj(s), "ops"))
		}
	} else {
		var wg sync.WaitGroup

		for i, s := range sessions {
			wg.Add(1)

			go func() {
				defer wg.Done()
				defer func() {
					if r := recover(); r != nil {
						errs[i] = fmt.Errorf("panic: %v", r)
					}
				}()

				out[i], errs[i] = c10StoreSession(kind, getArr(obj(s), "ops"))
			}()
		}

		wg.Wait()
	}

	for _, err := range errs {
		if err != nil {
			return nil, err
		}
	}

	return out, nil
}
