package main

// Family "entryview" (property C13): ONE logical request (method, scheme, host, raw path, raw query, header lines,
// body) and ONE rule set are taken through the three REAL entry points:
//
//   - the decision service and the proxy service (real middleware chains, real request context) receive the request
//     as HTTP/1.1 bytes written to a loopback socket (plain or TLS), exactly as a client would send it;
//   - the Envoy ext_authz gRPC service (real interceptor chain, real handler and request context) receives the
//     CheckRequest an Envoy proxy builds for that request according to the documented contract of
//     envoy.service.auth.v3.AttributeContext.HttpRequest (see c13ToCheck).
//
// The rules are loaded through the real rule-set parser, rule factory, rule-set processor, repository and executor
// with the REAL mechanism catalogue (anonymous authenticator, cel authorizer, header and cookie finalizers with
// templates). The only foreign mechanism is a "spy" authorizer, which reports the heimdall.Request it is handed.
// Reported per entry point: the decision, the request view seen by the spy, and the headers / cookies handed to
// the upstream side (response of the decision service, request received by the upstream of the proxy, OkResponse
// header options of the Envoy service), for the proxy also the payload its upstream received.
//
// The services are created with the logger of the log level of the case (`log`: trace … disabled; written to a
// discarded writer), as cmd/serve does with `log.level`: the dump middleware of the HTTP based services and the trace /
// debug code paths of the pipeline only run at some levels. Bodies may be some hundred KiB long; long values are
// reported by digest (c13Val).
//
// The services are created with the `buffer_limit` block of the case (`limits`: read and write in bytes, the same
// block for serve.decision and serve.proxy, the Envoy gRPC service uses the one of the decision service; absent: 0/0
// as in a hand-made configuration). What heimdall's configuration loader yields for a configuration that says nothing
// about the services (the documented defaults) is reported by `{"fam":"entryview","op":"defaults"}`.

//
// A case may say `via`: the services are then configured with `trusted_proxies` (the harness connects from 127.0.0.1,
// which the list covers) and the HTTP decision service is asked by a trusted gateway that delegates the decision
// (c13Via, c13Delegated): a request of the gateway's own carrying the logical request in X-Forwarded-Method / -Proto /
// -Host / -Uri. The proxy service and the Envoy gRPC service still receive the logical request itself.

import (
	"bufio"
	"bytes"
	"context"
	"crypto/ecdsa"
	"crypto/elliptic"
	"crypto/rand"
	"crypto/tls"
	"crypto/x509"
	"crypto/x509/pkix"
	"encoding/json"
	"errors"
	"fmt"
	"hash/fnv"
	"io"
	"math/big"
	"net"
	"net/http"
	"net/http/httptest"
	"os"
	"path/filepath"
	"sort"
	"strconv"
	"strings"
	"sync"
	"sync/atomic"
	"syscall"
	"time"

	envoy_auth "github.com/envoyproxy/go-control-plane/envoy/service/auth/v3"
	"github.com/inhies/go-bytesize"
	"github.com/rs/zerolog"
	"google.golang.org/grpc"
	"google.golang.org/grpc/credentials/insecure"
	"google.golang.org/grpc/status"

	"github.com/dadrus/heimdall/internal/cache/noop"
	"github.com/dadrus/heimdall/internal/config"
	"github.com/dadrus/heimdall/internal/handler/decision"
	"github.com/dadrus/heimdall/internal/handler/envoyextauth/grpcv3"
	"github.com/dadrus/heimdall/internal/handler/proxy"
	"github.com/dadrus/heimdall/internal/heimdall"
	"github.com/dadrus/heimdall/internal/rules"
	rulesconfig "github.com/dadrus/heimdall/internal/rules/config"
	"github.com/dadrus/heimdall/internal/rules/mechanisms"
	"github.com/dadrus/heimdall/internal/rules/mechanisms/authorizers"
	"github.com/dadrus/heimdall/internal/rules/mechanisms/subject"
	"github.com/dadrus/heimdall/internal/rules/rule"
)

func init() { families["entryview"] = runEntryView }

// ---------------------------------------------------------------------------------------------------------------
// byte strings: the case and the answer carry every byte as one character (U+0000..U+00FF)

func c13Bytes(s string) string {
	b := make([]byte, 0, len(s))

	for _, r := range s {
		b = append(b, byte(r)) //nolint:gosec
	}

	return string(b)
}

func c13Chars(s string) string {
	r := make([]rune, 0, len(s))

	for i := 0; i < len(s); i++ {
		r = append(r, rune(s[i]))
	}

	return string(r)
}

// c13Val renders a value as it is compared with the model: as it is up to 1024 bytes; a longer one (bodies of up to
// some hundred KiB and what the templates make of them) by its first and last 32 bytes, its length and its FNV-1a hash
// (the driver's `digest` renders the same).
func c13Val(s string) string {
	if len(s) <= 1024 {
		return c13Chars(s)
	}

	h := fnv.New64a()
	_, _ = h.Write([]byte(s))

	return c13Chars(s[:32]) + fmt.Sprintf("...[%d bytes fnv1a64=%x]...", len(s), h.Sum64()) + c13Chars(s[len(s)-32:])
}

// ---------------------------------------------------------------------------------------------------------------
// case format

type c13Probe struct {
	K string `json:"k"` // method scheme host hostname port path query capture header cookie body
	A string `json:"a"`
}

type c13Cond struct {
	P  c13Probe `json:"p"`
	Eq string   `json:"eq"`
}

type c13Item struct {
	Name   string     `json:"name"`
	Probes []c13Probe `json:"probes"`
}

type c13Fin struct {
	T     string    `json:"t"` // header | cookie
	If    *c13Cond  `json:"if"`
	Items []c13Item `json:"items"`
}

type c13Pipe struct {
	Authz []c13Cond `json:"authz"`
	Fin   []c13Fin  `json:"fin"`
	Deny  bool      `json:"deny"` // the `unauthorized` authenticator instead of the anonymous one
	Comm  bool      `json:"comm"` // a generic contextualizer whose endpoint nobody listens on
}

// c13Respond is the `respond` block of serve.decision and serve.proxy (the Envoy gRPC service uses the block of the
// decision service).
type c13Respond struct {
	Verbose bool `json:"verbose"`
	Codes   struct {
		Accepted       int `json:"accepted"`
		Argument       int `json:"argument"`
		Authentication int `json:"authentication"`
		Authorization  int `json:"authorization"`
		Communication  int `json:"communication"`
		Internal       int `json:"internal"`
		NoRule         int `json:"norule"`
	} `json:"codes"`
}

func c13Or(code, dflt int) int {
	if code == 0 {
		return dflt
	}

	return code
}

// class answered with the given status under the response configuration (the generator keeps the codes of the
// classes pairwise different)
func (r *c13Respond) class(status int) string {
	switch status {
	case c13Or(r.Codes.NoRule, http.StatusNotFound):
		return "norule"
	case c13Or(r.Codes.Argument, http.StatusBadRequest):
		return "argument"
	case c13Or(r.Codes.Authentication, http.StatusUnauthorized):
		return "authentication"
	case c13Or(r.Codes.Authorization, http.StatusForbidden):
		return "authorization"
	case c13Or(r.Codes.Communication, http.StatusBadGateway):
		return "communication"
	case c13Or(r.Codes.Internal, http.StatusInternalServerError):
		return "internal"
	}

	return "status-" + strconv.Itoa(status)
}

// c13Limits is the `buffer_limit` block of serve.decision and serve.proxy (bytes; the Envoy gRPC service uses the block
// of the decision service).
type c13Limits struct {
	Read  int64 `json:"read"`
	Write int64 `json:"write"`
}

// c13Defaults: what heimdall's configuration loader (config.NewConfiguration: built-in defaults, configuration file,
// environment) yields for a configuration file that says nothing about the services — the documented defaults of
// `serve.decision.buffer_limit` and `serve.proxy.buffer_limit`.
func c13Defaults() (any, error) {
	dir, err := os.MkdirTemp("", "verif-c13-conf-")
	if err != nil {
		return nil, err
	}

	defer os.RemoveAll(dir)

	file := filepath.Join(dir, "heimdall.yaml")
	if err = os.WriteFile(file, []byte("log:\n  level: error\n"), 0o600); err != nil {
		return nil, err
	}

	conf, err := config.NewConfiguration("VERIFC13NOENV_", config.ConfigurationPath(file))
	if err != nil {
		return nil, err
	}

	limits := func(sc config.ServiceConfig) map[string]any {
		return map[string]any{"read": int64(sc.BufferLimit.Read), "write": int64(sc.BufferLimit.Write)}
	}

	return map[string]any{"decision": limits(conf.Serve.Decision), "proxy": limits(conf.Serve.Proxy)}, nil
}

type c13Req struct {
	Method    string     `json:"method"`
	TLS       bool       `json:"tls"`
	Host      string     `json:"host"`
	Path      string     `json:"path"`
	Query     string     `json:"query"`
	Headers   [][]string `json:"headers"`
	Body      *string    `json:"body"`
	EnvoyBody string     `json:"envoy_body"` // raw | str
}

// c13Via: a trusted gateway delegates the decision to the HTTP decision service (Traefik forwardAuth, NGINX
// auth_request, …). `serve.decision.trusted_proxies` / `serve.proxy.trusted_proxies` = Proxies (the peer — the harness
// on 127.0.0.1 — is one of them); the decision service receives a request of the gateway's own (Method — absent: the
// client's method —, request target Path, transport TLS or not) which describes the logical request in
// X-Forwarded-Method / -Proto / -Host / -Uri and passes the Host line, the other header lines and the body on. The
// proxy service and the Envoy gRPC service receive the logical request itself.
type c13Via struct {
	Proxies []string `json:"proxies"`
	Method  *string  `json:"method"`
	TLS     bool     `json:"tls"`
	Path    string   `json:"path"`
}

// c13Delegated: the message the gateway sends to the decision service for the logical request (Model: forwardAuth)
func c13Delegated(via *c13Via, lr *c13Req) *c13Req {
	target := lr.Path
	if lr.Query != "" {
		target += "?" + lr.Query
	}

	method := lr.Method
	if via.Method != nil {
		method = *via.Method
	}

	headers := [][]string{
		{"X-Forwarded-Method", lr.Method},
		{"X-Forwarded-Proto", map[bool]string{false: "http", true: "https"}[lr.TLS]},
		{"X-Forwarded-Host", lr.Host},
		{"X-Forwarded-Uri", target},
	}

	return &c13Req{
		Method: method, TLS: via.TLS, Host: lr.Host, Path: via.Path, Query: "",
		Headers: append(headers, lr.Headers...), Body: lr.Body, EnvoyBody: lr.EnvoyBody,
	}
}

type c13Spy struct {
	Headers []string `json:"headers"`
	Cookies []string `json:"cookies"`
}

// ---------------------------------------------------------------------------------------------------------------
// the spy: reports the request view a mechanism is handed

type c13SpyAuthorizer struct{}

var (
	c13SpyMu   sync.Mutex     //nolint:gochecknoglobals
	c13SpyConf c13Spy         //nolint:gochecknoglobals
	c13SpySeen map[string]any //nolint:gochecknoglobals
)

func (c13SpyAuthorizer) ID() string            { return "c13-spy" }
func (c13SpyAuthorizer) ContinueOnError() bool { return false }
func (s c13SpyAuthorizer) WithConfig(map[string]any) (authorizers.Authorizer, error) {
	return s, nil
}

func c13CanonBody(v any) string {
	// the encoding of the template function toJson
	data, err := json.Marshal(v)
	if err != nil {
		return "unencodable"
	}

	return string(data)
}

func c13SortedPairs(m map[string]string) [][]string {
	res := [][]string{}
	for k, v := range m {
		res = append(res, []string{c13Chars(k), c13Val(v)})
	}

	sort.Slice(res, func(i, j int) bool { return res[i][0] < res[j][0] })

	return res
}

func (c13SpyAuthorizer) Execute(ctx heimdall.Context, _ *subject.Subject) error {
	req := ctx.Request()

	c13SpyMu.Lock()
	defer c13SpyMu.Unlock()

	hdr := [][]string{}
	for _, n := range c13SpyConf.Headers {
		hdr = append(hdr, []string{n, c13Chars(req.Header(c13Bytes(n)))})
	}

	ck := [][]string{}
	for _, n := range c13SpyConf.Cookies {
		ck = append(ck, []string{n, c13Chars(req.Cookie(c13Bytes(n)))})
	}

	c13SpySeen = map[string]any{
		"method":   c13Chars(req.Method),
		"scheme":   c13Chars(req.URL.Scheme),
		"host":     c13Chars(req.URL.Host),
		"hostname": c13Chars(req.URL.Hostname()),
		"port":     c13Chars(req.URL.Port()),
		"path":     c13Chars(req.URL.Path),
		"rawpath":  c13Chars(req.URL.RawPath),
		"query":    c13Chars(req.URL.RawQuery),
		"url":      c13Chars(req.URL.String()),
		"captures": c13SortedPairs(req.URL.Captures),
		"headers":  c13SortedPairs(req.Headers()),
		"header":   hdr,
		"cookie":   ck,
		"body":     c13Val(c13CanonBody(req.Body())),
		// a second call has to return the same view
		"stable": ctx.Request() == req,
	}

	return nil
}

func c13TakeSpy(conf c13Spy) any {
	c13SpyMu.Lock()
	defer c13SpyMu.Unlock()

	res := c13SpySeen
	c13SpySeen = nil
	c13SpyConf = conf

	if res == nil {
		return nil
	}

	return res
}

// c13Factory is the real mechanism factory plus the spy.
type c13Factory struct{ mechanisms.MechanismFactory }

func (f *c13Factory) CreateAuthorizer(version, id string, conf config.MechanismConfig) (authorizers.Authorizer, error) {
	if id == "c13-spy" {
		return c13SpyAuthorizer{}, nil
	}

	return f.MechanismFactory.CreateAuthorizer(version, id, conf)
}

// ---------------------------------------------------------------------------------------------------------------
// templates and CEL expressions of the probes

func c13Quote(s string) string {
	var sb strings.Builder

	sb.WriteByte('"')

	for i := 0; i < len(s); i++ {
		if s[i] == '"' || s[i] == '\\' {
			sb.WriteByte('\\')
		}

		sb.WriteByte(s[i])
	}

	sb.WriteByte('"')

	return sb.String()
}

func c13Template(p c13Probe) string {
	switch p.K {
	case "method":
		return `{{ .Request.Method | urlenc }}`
	case "scheme":
		return `{{ .Request.URL.Scheme | urlenc }}`
	case "host":
		return `{{ .Request.URL.Host | urlenc }}`
	case "hostname":
		return `{{ .Request.URL.Hostname | urlenc }}`
	case "port":
		return `{{ .Request.URL.Port | urlenc }}`
	case "path":
		return `{{ .Request.URL.Path | urlenc }}`
	case "query":
		return `{{ .Request.URL.RawQuery | urlenc }}`
	case "capture":
		return `{{ index .Request.URL.Captures ` + c13Quote(p.A) + ` | urlenc }}`
	case "header":
		return `{{ .Request.Header ` + c13Quote(p.A) + ` | urlenc }}`
	case "cookie":
		return `{{ .Request.Cookie ` + c13Quote(p.A) + ` | urlenc }}`
	case "body":
		return `{{ .Request.Body | toJson | urlenc }}`
	}

	panic("harness: unknown probe " + p.K)
}

func c13CEL(p c13Probe) string {
	switch p.K {
	case "method":
		return `Request.Method`
	case "scheme":
		return `Request.URL.Scheme`
	case "host":
		return `Request.URL.Host`
	case "hostname":
		return `Request.URL.Hostname()`
	case "port":
		return `Request.URL.Port()`
	case "path":
		return `Request.URL.Path`
	case "query":
		return `Request.URL.RawQuery`
	case "capture":
		return `Request.URL.Captures[` + c13Quote(p.A) + `]`
	case "header":
		return `Request.Header(` + c13Quote(p.A) + `)`
	case "cookie":
		return `Request.Cookie(` + c13Quote(p.A) + `)`
	}

	panic("harness: probe not usable in CEL: " + p.K)
}

func c13CondExpr(c c13Cond) string { return c13CEL(c.P) + " == " + c13Quote(c.Eq) }

func c13Execute(p c13Pipe) []any {
	authn := "c13-anon"
	if p.Deny {
		authn = "c13-deny"
	}

	exec := []any{
		map[string]any{"authenticator": authn},
		map[string]any{"authorizer": "c13-spy"},
	}

	if len(p.Authz) != 0 {
		exprs := []any{}
		for _, c := range p.Authz {
			exprs = append(exprs, map[string]any{"expression": c13CondExpr(c)})
		}

		exec = append(exec, map[string]any{"authorizer": "c13-cel", "config": map[string]any{"expressions": exprs}})
	}

	if p.Comm {
		exec = append(exec, map[string]any{"contextualizer": "c13-comm"})
	}

	for _, f := range p.Fin {
		vals := map[string]any{}

		for _, it := range f.Items {
			parts := []string{}
			for _, pr := range it.Probes {
				parts = append(parts, c13Template(pr))
			}

			vals[it.Name] = strings.Join(parts, "|")
		}

		var step map[string]any
		if f.T == "cookie" {
			step = map[string]any{"finalizer": "c13-cookie", "config": map[string]any{"cookies": vals}}
		} else {
			step = map[string]any{"finalizer": "c13-header", "config": map[string]any{"headers": vals}}
		}

		if f.If != nil {
			step["if"] = c13CondExpr(*f.If)
		}

		exec = append(exec, step)
	}

	return exec
}

// ---------------------------------------------------------------------------------------------------------------
// services

type c13Switch struct{ cur atomic.Pointer[rule.Executor] }

var errC13NoExecutor = errors.New("harness: no executor installed") //nolint:gochecknoglobals

func (s *c13Switch) Execute(ctx heimdall.Context) (rule.Backend, error) {
	e := s.cur.Load()
	if e == nil {
		return nil, errC13NoExecutor
	}

	return (*e).Execute(ctx)
}

func (s *c13Switch) set(e rule.Executor) {
	if e == nil {
		s.cur.Store(nil)

		return
	}

	s.cur.Store(&e)
}

type c13Upstream struct {
	mu      sync.Mutex
	hits    int
	headers http.Header
	cookies []*http.Cookie
	payload string // the body the upstream application received ("read error: …" if it could not be read)
}

// c13Stack: the three services started with one response configuration, one log level and one `buffer_limit` block
type c13Stack struct {
	decision, decisionTLS string
	proxy, proxyTLS       string
	envoy                 envoy_auth.AuthorizationClient
	decSwitch, prxSwitch  *c13Switch
}

type c13Services struct {
	*c13Stack // of the case at hand

	stacks   map[string]*c13Stack // by response configuration, log level and buffer limits
	tlsCfg   *tls.Config
	upstream *httptest.Server
	up       *c13Upstream
	mechs    mechanisms.MechanismFactory
}

var (
	c13Once sync.Once    //nolint:gochecknoglobals
	c13Svc  *c13Services //nolint:gochecknoglobals
	errC13  error        //nolint:gochecknoglobals
)

func c13TLSConfig() (*tls.Config, error) {
	key, err := ecdsa.GenerateKey(elliptic.P256(), rand.Reader)
	if err != nil {
		return nil, err
	}

	tmpl := &x509.Certificate{
		SerialNumber: big.NewInt(1), Subject: pkix.Name{CommonName: "c13"},
		NotBefore: time.Now().Add(-time.Hour), NotAfter: time.Now().Add(240 * time.Hour),
		KeyUsage: x509.KeyUsageDigitalSignature, ExtKeyUsage: []x509.ExtKeyUsage{x509.ExtKeyUsageServerAuth},
		IPAddresses: []net.IP{net.ParseIP("127.0.0.1")},
	}

	der, err := x509.CreateCertificate(rand.Reader, tmpl, tmpl, &key.PublicKey, key)
	if err != nil {
		return nil, err
	}

	return &tls.Config{
		Certificates: []tls.Certificate{{Certificate: [][]byte{der}, PrivateKey: key}},
		NextProtos:   []string{"http/1.1"},
		MinVersion:   tls.VersionTLS12,
	}, nil
}

// c13DeadPort hands out a loopback address nobody listens on and nobody will: the socket is bound (so the kernel gives
// the port to no listener and to no client of this or another process) but never listens, so every connection
// attempt is refused at once. It stays open as long as the process lives. (A port that is merely released after
// having been handed out is soon given to one of the many listeners of the service stacks, and the request of the
// `generic` contextualizer then reaches one of the services under test instead of nobody.)
func c13DeadPort() (string, error) {
	fd, err := syscall.Socket(syscall.AF_INET, syscall.SOCK_STREAM, 0)
	if err != nil {
		return "", err
	}

	if err = syscall.Bind(fd, &syscall.SockaddrInet4{Port: 0, Addr: [4]byte{127, 0, 0, 1}}); err != nil {
		_ = syscall.Close(fd)

		return "", err
	}

	sa, err := syscall.Getsockname(fd)
	if err != nil {
		_ = syscall.Close(fd)

		return "", err
	}

	in4, ok := sa.(*syscall.SockaddrInet4)
	if !ok {
		_ = syscall.Close(fd)

		return "", errors.New("harness: unexpected socket address type")
	}

	return "127.0.0.1:" + strconv.Itoa(in4.Port), nil
}

func c13Start() (*c13Services, error) {
	svc := &c13Services{stacks: map[string]*c13Stack{}, up: &c13Upstream{}}
	log := zerolog.Nop()

	// a loopback port nobody listens on
	deadAddr, err := c13DeadPort()
	if err != nil {
		return nil, err
	}

	svc.upstream = httptest.NewServer(http.HandlerFunc(func(rw http.ResponseWriter, req *http.Request) {
		payload, err := io.ReadAll(req.Body)
		if err != nil {
			payload = []byte("read error: " + err.Error())
		}

		svc.up.mu.Lock()
		svc.up.hits++
		svc.up.headers = req.Header.Clone()
		svc.up.cookies = req.Cookies()
		svc.up.payload = string(payload)
		svc.up.mu.Unlock()

		rw.WriteHeader(http.StatusOK)
	}))

	mconf := &config.Configuration{Prototypes: &config.MechanismPrototypes{
		Authenticators: []config.Mechanism{
			{ID: "c13-anon", Type: "anonymous"}, {ID: "c13-deny", Type: "unauthorized"},
		},
		Contextualizers: []config.Mechanism{{ID: "c13-comm", Type: "generic", Config: config.MechanismConfig{
			"endpoint": map[string]any{"url": "http://" + deadAddr + "/c13", "method": "GET"},
		}}},
		Authorizers: []config.Mechanism{{ID: "c13-cel", Type: "cel", Config: config.MechanismConfig{
			"expressions": []any{map[string]any{"expression": "true"}},
		}}},
		Finalizers: []config.Mechanism{
			{ID: "c13-header", Type: "header", Config: config.MechanismConfig{"headers": map[string]any{"X-C13": "x"}}},
			{ID: "c13-cookie", Type: "cookie", Config: config.MechanismConfig{"cookies": map[string]any{"c13": "x"}}},
		},
	}}

	real, err := mechanisms.NewMechanismFactory(mconf, log, nil, nil, nil)
	if err != nil {
		return nil, err
	}

	svc.mechs = &c13Factory{real}

	if svc.tlsCfg, err = c13TLSConfig(); err != nil {
		return nil, err
	}

	return svc, nil
}

// c13Logger is the logger cmd/serve creates for `log.level` (logging.NewLogger:
// zerolog.New(writer).Level(level).With().Timestamp().Logger()), except that what is logged goes to a discarded
// writer: at trace level every request and response is dumped, which must neither slow the run down nor fill a disk.
// The services put it into the context of every request, where the middlewares and the pipeline code find it with
// zerolog.Ctx. No level given: the no-op logger (as before the level became part of a case).
func c13Logger(level string) (zerolog.Logger, error) {
	switch level {
	case "":
		return zerolog.Nop(), nil
	case "disabled":
		return zerolog.New(io.Discard).Level(zerolog.Disabled).With().Timestamp().Logger(), nil
	}

	lvl, err := zerolog.ParseLevel(level)
	if err != nil || lvl < zerolog.TraceLevel || lvl > zerolog.ErrorLevel {
		return zerolog.Nop(), fmt.Errorf("harness: unknown log level %q", level)
	}

	return zerolog.New(io.Discard).Level(lvl).With().Timestamp().Logger(), nil
}

// stack starts (once per response configuration, log level and buffer limits) the real decision, proxy and Envoy
// ext_authz services
func (svc *c13Services) stack(rc *c13Respond, level string, lim c13Limits, trusted []string) (*c13Stack, error) {
	key := fmt.Sprintf("%+v|%s|%+v|%q", *rc, level, lim, trusted)
	if st, ok := svc.stacks[key]; ok {
		return st, nil
	}

	log, err := c13Logger(level)
	if err != nil {
		return nil, err
	}

	var respond config.RespondConfig

	respond.Verbose = rc.Verbose
	respond.With.Accepted.Code = rc.Codes.Accepted
	respond.With.ArgumentError.Code = rc.Codes.Argument
	respond.With.AuthenticationError.Code = rc.Codes.Authentication
	respond.With.AuthorizationError.Code = rc.Codes.Authorization
	respond.With.CommunicationError.Code = rc.Codes.Communication
	respond.With.InternalError.Code = rc.Codes.Internal
	respond.With.NoRuleError.Code = rc.Codes.NoRule

	st := &c13Stack{decSwitch: &c13Switch{}, prxSwitch: &c13Switch{}}
	sc := config.ServiceConfig{
		Host: "127.0.0.1", Respond: respond,
		BufferLimit: config.BufferLimit{Read: bytesize.ByteSize(lim.Read), Write: bytesize.ByteSize(lim.Write)}, //nolint:gosec
	}

	if trusted != nil {
		sc.TrustedProxies = &trusted
	}

	conf := &config.Configuration{Serve: config.ServeConfig{Decision: sc, Proxy: sc}}

	serve := func(srv *http.Server) (string, string, error) {
		l1, err := verifListen("127.0.0.1:0")
		if err != nil {
			return "", "", err
		}

		l2, err := verifListen("127.0.0.1:0")
		if err != nil {
			return "", "", err
		}

		go func() { _ = srv.Serve(l1) }()
		go func() { _ = srv.Serve(tls.NewListener(l2, svc.tlsCfg)) }()

		return l1.Addr().String(), l2.Addr().String(), nil
	}

	if st.decision, st.decisionTLS, err = serve(
		decision.VerifC13NewService(conf, &noop.Cache{}, log, st.decSwitch)); err != nil {
		return nil, err
	}

	if st.proxy, st.proxyTLS, err = serve(
		proxy.VerifC13NewService(conf, &noop.Cache{}, log, st.prxSwitch)); err != nil {
		return nil, err
	}

	gl, err := verifListen("127.0.0.1:0")
	if err != nil {
		return nil, err
	}

	gsrv := grpcv3.VerifC13NewService(conf, &noop.Cache{}, log, st.decSwitch)
	go func() { _ = gsrv.Serve(gl) }()

	conn, err := grpc.NewClient(gl.Addr().String(), grpc.WithTransportCredentials(insecure.NewCredentials()))
	if err != nil {
		return nil, err
	}

	st.envoy = envoy_auth.NewAuthorizationClient(conn)
	svc.stacks[key] = st

	return st, nil
}

// ---------------------------------------------------------------------------------------------------------------
// loading the rules (real parser, factory, processor, repository, executor)

func c13RuleDoc(rm map[string]any, upstream string, proxyMode bool) (map[string]any, error) {
	match := map[string]any{}
	routes := []any{}

	for _, rt := range getArr(rm, "routes") {
		rtm := obj(rt)
		route := map[string]any{"path": c13Bytes(getStr(rtm, "path"))}

		pps := []any{}
		for _, pp := range getArr(rtm, "pp") {
			ppm := obj(pp)
			pps = append(pps, map[string]any{
				"name": getStr(ppm, "name"), "type": getStr(ppm, "type"), "value": c13Bytes(getStr(ppm, "value")),
			})
		}

		if len(pps) != 0 {
			route["path_params"] = pps
		}

		routes = append(routes, route)
	}

	match["routes"] = routes

	if bt, ok := rm["bt"].(bool); ok {
		match["backtracking_enabled"] = bt
	}

	if s := getStr(rm, "scheme"); s != "" {
		match["scheme"] = s
	}

	if m := getStrs(rm, "methods"); len(m) != 0 {
		match["methods"] = m
	}

	hosts := []any{}
	for _, h := range getArr(rm, "hosts") {
		hm := obj(h)
		hosts = append(hosts, map[string]any{"type": getStr(hm, "type"), "value": getStr(hm, "value")})
	}

	if len(hosts) != 0 {
		match["hosts"] = hosts
	}

	var pipe c13Pipe

	data, err := json.Marshal(rm["pipe"])
	if err != nil {
		return nil, err
	}

	if err = json.Unmarshal(data, &pipe); err != nil {
		return nil, err
	}

	doc := map[string]any{"id": getStr(rm, "id"), "match": match, "execute": c13Execute(pipe)}

	if esh := getStr(rm, "esh"); esh != "" {
		doc["allow_encoded_slashes"] = esh
	}

	if proxyMode {
		// the upstream test server speaks plain HTTP, whatever the scheme of the request is
		doc["forward_to"] = map[string]any{"host": upstream, "rewrite": map[string]any{"scheme": "http"}}
	}

	return doc, nil
}

func c13ToMech(in []any) []config.MechanismConfig {
	var res []config.MechanismConfig
	for _, m := range in {
		res = append(res, config.MechanismConfig(obj(m)))
	}

	return res
}

func c13Load(c map[string]any, svc *c13Services, mode config.OperationMode) (rule.Executor, error) {
	conf := &config.Configuration{}

	if d, ok := c["default"].(map[string]any); ok {
		var pipe c13Pipe

		data, err := json.Marshal(d["pipe"])
		if err != nil {
			return nil, err
		}

		if err = json.Unmarshal(data, &pipe); err != nil {
			return nil, err
		}

		conf.Default = &config.DefaultRule{Execute: c13ToMech(c13Execute(pipe))}
	}

	factory, err := rules.NewRuleFactory(svc.mechs, conf, mode, zerolog.Nop())
	if err != nil {
		return nil, err
	}

	repo := rules.VerifC13NewRepository(factory)
	proc := rules.NewRuleSetProcessor(repo, factory)
	upstream := strings.TrimPrefix(svc.upstream.URL, "http://")

	for idx, s := range getArr(c, "sets") {
		sm := obj(s)
		rls := []any{}

		for _, r := range getArr(sm, "rules") {
			doc, err := c13RuleDoc(obj(r), upstream, mode == config.ProxyMode)
			if err != nil {
				return nil, err
			}

			rls = append(rls, doc)
		}

		doc, err := json.Marshal(map[string]any{
			"version": rulesconfig.CurrentRuleSetVersion, "name": getStr(sm, "src"), "rules": rls,
		})
		if err != nil {
			return nil, err
		}

		rs, err := rulesconfig.ParseRules("application/json", bytes.NewReader(doc), false)
		if err != nil {
			return nil, fmt.Errorf("rule set %d rejected by the parser: %w", idx, err)
		}

		rs.Source = getStr(sm, "src")

		if err = proc.OnCreated(rs); err != nil {
			return nil, fmt.Errorf("rule set %d rejected: %w", idx, err)
		}
	}

	return rules.VerifC13NewRuleExecutor(repo), nil
}

// ---------------------------------------------------------------------------------------------------------------
// carriers

// c13WireHTTP writes the logical request as an HTTP/1.1 message and reads one response.
// c13BodyLen: number of body bytes of the last response read by c13WireHTTP
var c13BodyLen int64 //nolint:gochecknoglobals

func c13WireHTTP(addr string, lr *c13Req) (*http.Response, error) {
	var (
		conn net.Conn
		err  error
	)

	raw, err := (&net.Dialer{Timeout: 10 * time.Second}).Dial("tcp", addr)
	if err != nil {
		return nil, err
	}

	// no TIME-WAIT on the client side: the port goes back to the kernel at once
	defer verifCloseNow(raw)

	conn = raw
	if lr.TLS {
		conn = tls.Client(raw, &tls.Config{
			InsecureSkipVerify: true, NextProtos: []string{"http/1.1"}, //nolint:gosec
		})
	}

	_ = conn.SetDeadline(time.Now().Add(30 * time.Second))

	var msg bytes.Buffer

	target := c13Bytes(lr.Path)
	if lr.Query != "" {
		target += "?" + c13Bytes(lr.Query)
	}

	msg.WriteString(lr.Method + " " + target + " HTTP/1.1\r\n")
	msg.WriteString("Host: " + lr.Host + "\r\n")

	for _, h := range lr.Headers {
		msg.WriteString(c13Bytes(h[0]) + ": " + c13Bytes(h[1]) + "\r\n")
	}

	msg.WriteString("\r\n")

	if lr.Body != nil {
		msg.WriteString(c13Bytes(*lr.Body))
	}

	// A body may be larger than what the socket buffers hold, and a server which answers without reading all of it
	// closes the connection while the rest is still being written: the message is written while the response is
	// awaited, and a write error only counts if no response arrives.
	written := make(chan error, 1)

	go func() {
		_, werr := conn.Write(msg.Bytes())
		written <- werr
	}()

	resp, err := http.ReadResponse(bufio.NewReader(conn), &http.Request{Method: lr.Method})
	if err != nil {
		_ = conn.SetDeadline(time.Now()) // releases the writer

		if werr := <-written; werr != nil {
			return nil, fmt.Errorf("%w (writing the request: %s)", err, werr.Error())
		}

		return nil, err
	}

	defer func() {
		_ = conn.SetDeadline(time.Now())
		<-written
	}()

	c13BodyLen, _ = io.Copy(io.Discard, resp.Body)
	_ = resp.Body.Close()

	return resp, nil
}

// c13ToCheck builds the CheckRequest of an Envoy ext_authz filter (grpc_service) for the logical request, following
// the contract documented with envoy.service.auth.v3.AttributeContext.HttpRequest:
//   - path: "the request target, as it appears in the first line of the HTTP request. This includes the URL path
//     and query-string. No decoding is performed."; query and fragment: "always empty";
//   - headers: "if multiple headers share the same key, they must be merged according to the HTTP spec [joined with
//     a comma]. All header keys must be lower-cased";
//   - host: the Host / :authority value; scheme: http / https; method;
//   - body resp. raw_body (pack_as_bytes): the buffered request body.
func c13ToCheck(lr *c13Req) (*envoy_auth.CheckRequest, map[string]any) {
	target := c13Bytes(lr.Path)
	if lr.Query != "" {
		target += "?" + c13Bytes(lr.Query)
	}

	headers := map[string]string{}

	for _, h := range lr.Headers {
		k := strings.ToLower(c13Bytes(h[0]))
		if old, ok := headers[k]; ok {
			headers[k] = old + "," + c13Bytes(h[1])
		} else {
			headers[k] = c13Bytes(h[1])
		}
	}

	hr := &envoy_auth.AttributeContext_HttpRequest{
		Method:   lr.Method,
		Scheme:   map[bool]string{false: "http", true: "https"}[lr.TLS],
		Host:     lr.Host,
		Path:     target,
		Headers:  headers,
		Protocol: "HTTP/1.1",
	}

	if lr.Body != nil {
		if lr.EnvoyBody == "str" {
			hr.Body = c13Bytes(*lr.Body)
		} else {
			hr.RawBody = []byte(c13Bytes(*lr.Body))
		}
	}

	echo := map[string]any{
		"method": hr.GetMethod(), "scheme": hr.GetScheme(), "host": hr.GetHost(), "path": c13Chars(hr.GetPath()),
		"query": hr.GetQuery(), "headers": c13SortedPairs(headers),
	}

	return &envoy_auth.CheckRequest{Attributes: &envoy_auth.AttributeContext{
		Request: &envoy_auth.AttributeContext_Request{Http: hr},
	}}, echo
}

// ---------------------------------------------------------------------------------------------------------------
// observables

const (
	c13HeaderPrefix = "X-C13-"
	c13CookiePrefix = "c13u-"
)

// c13NS: the headers of the reserved namespace as an HTTP consumer sees them (several field lines = one
// comma-joined list), sorted by canonical name
func c13NS(h http.Header) [][]string {
	res := [][]string{}

	for k, v := range h {
		if strings.HasPrefix(http.CanonicalHeaderKey(k), c13HeaderPrefix) {
			res = append(res, []string{http.CanonicalHeaderKey(k), c13Val(strings.Join(v, ","))})
		}
	}

	sort.Slice(res, func(i, j int) bool { return res[i][0] < res[j][0] })

	return res
}

// c13ClientHeaders: the header lines of the client, as the hop in front of the upstream application holds them
func c13ClientHeaders(lr *c13Req) http.Header {
	h := http.Header{}
	for _, l := range lr.Headers {
		h.Add(c13Bytes(l[0]), c13Bytes(l[1]))
	}

	return h
}

func c13UpCookies(cs []*http.Cookie) [][]string {
	res := [][]string{}

	for _, c := range cs {
		if strings.HasPrefix(c.Name, c13CookiePrefix) {
			res = append(res, []string{c.Name, c13Val(c.Value)})
		}
	}

	sort.Slice(res, func(i, j int) bool { return res[i][0] < res[j][0] || (res[i][0] == res[j][0] && res[i][1] < res[j][1]) })

	return res
}

func runEntryView(c map[string]any) (any, error) {
	if getStr(c, "op") == "defaults" {
		return c13Defaults()
	}

	c13Once.Do(func() { c13Svc, errC13 = c13Start() })

	if errC13 != nil {
		return nil, errC13
	}

	svc := c13Svc

	var (
		lr  c13Req
		spy c13Spy
		rc  c13Respond
		lim c13Limits
		via *c13Via
	)

	for key, dst := range map[string]any{"req": &lr, "spy": &spy, "respond": &rc, "limits": &lim} {
		if c[key] == nil {
			continue
		}

		data, err := json.Marshal(c[key])
		if err != nil {
			return nil, err
		}

		if err = json.Unmarshal(data, dst); err != nil {
			return nil, err
		}
	}

	if c["via"] != nil {
		data, err := json.Marshal(c["via"])
		if err != nil {
			return nil, err
		}

		via = &c13Via{}
		if err = json.Unmarshal(data, via); err != nil {
			return nil, err
		}
	}

	var trusted []string
	if via != nil {
		trusted = append([]string{}, via.Proxies...)
	}

	st, err := svc.stack(&rc, getStr(c, "log"), lim, trusted)
	if err != nil {
		return nil, err
	}

	svc.c13Stack = st
	res := map[string]any{}

	// --- decision operation mode: decision service and Envoy ext_authz service
	exec, err := c13Load(c, svc, config.DecisionMode)
	if err != nil {
		return map[string]any{"load": "rejected", "why": err.Error()}, nil
	}

	svc.decSwitch.set(exec)
	c13TakeSpy(spy)

	// what the decision service receives: the logical request itself, or the message of the gateway that delegates
	// the decision
	wire := &lr
	if via != nil {
		wire = c13Delegated(via, &lr)
	}

	addr := svc.decision
	if wire.TLS {
		addr = svc.decisionTLS
	}

	resp, err := c13WireHTTP(addr, wire)
	if err != nil {
		res["decision"] = map[string]any{"dec": "transport", "why": err.Error()}
	} else {
		out := map[string]any{
			"dec": rc.class(resp.StatusCode), "status": resp.StatusCode, "spy": c13TakeSpy(spy), "up": nil,
			"body": c13BodyLen != 0,
		}

		if resp.StatusCode == c13Or(rc.Codes.Accepted, http.StatusOK) {
			// the API gateway in front of the upstream application replaces the headers of the request by those
			// of the response of the decision service
			sees := c13ClientHeaders(&lr)
			for k, v := range resp.Header {
				sees[http.CanonicalHeaderKey(k)] = v
			}

			out["dec"] = "ok"
			out["up"] = map[string]any{"headers": c13NS(sees), "cookies": c13UpCookies(resp.Cookies())}
		}

		res["decision"] = out
	}

	c13TakeSpy(spy)

	check, echo := c13ToCheck(&lr)
	res["check"] = echo

	ctx, cancel := context.WithTimeout(context.Background(), 20*time.Second)
	cresp, err := svc.envoy.Check(ctx, check)

	cancel()

	switch {
	case err != nil:
		stt, _ := status.FromError(err)
		res["envoy"] = map[string]any{"dec": "rpcerr-" + stt.Code().String(), "spy": c13TakeSpy(spy), "up": nil}
	case cresp.GetOkResponse() != nil:
		// Envoy: "by leaving append as false, the filter will either add a new header, or override an existing one"
		sees := c13ClientHeaders(&lr)

		var cookies []*http.Cookie

		for _, o := range cresp.GetOkResponse().GetHeaders() {
			k, v := o.GetHeader().GetKey(), o.GetHeader().GetValue()
			if http.CanonicalHeaderKey(k) == "Cookie" {
				for _, part := range strings.Split(v, ";") {
					if n, val, ok := strings.Cut(strings.TrimSpace(part), "="); ok {
						cookies = append(cookies, &http.Cookie{Name: n, Value: val})
					}
				}

				continue
			}

			if o.GetAppend().GetValue() {
				sees.Add(k, v)
			} else {
				sees.Set(k, v)
			}
		}

		res["envoy"] = map[string]any{
			"dec": "ok", "status": http.StatusOK, "spy": c13TakeSpy(spy), "body": false,
			"up": map[string]any{"headers": c13NS(sees), "cookies": c13UpCookies(cookies)},
		}
	case cresp.GetDeniedResponse() != nil:
		code := int(cresp.GetDeniedResponse().GetStatus().GetCode())
		res["envoy"] = map[string]any{
			"dec": rc.class(code), "status": code, "spy": c13TakeSpy(spy), "up": nil,
			"body": len(cresp.GetDeniedResponse().GetBody()) != 0,
		}
	default:
		res["envoy"] = map[string]any{"dec": "empty-response", "spy": c13TakeSpy(spy), "up": nil}
	}

	svc.decSwitch.set(nil)

	// --- proxy operation mode
	exec, err = c13Load(c, svc, config.ProxyMode)
	if err != nil {
		return map[string]any{"load": "rejected", "why": err.Error()}, nil
	}

	svc.prxSwitch.set(exec)
	c13TakeSpy(spy)

	svc.up.mu.Lock()
	svc.up.hits, svc.up.headers, svc.up.cookies, svc.up.payload = 0, nil, nil, ""
	svc.up.mu.Unlock()

	addr = svc.proxy
	if lr.TLS {
		addr = svc.proxyTLS
	}

	resp, err = c13WireHTTP(addr, &lr)
	if err != nil {
		res["proxy"] = map[string]any{"dec": "transport", "why": err.Error()}
	} else {
		out := map[string]any{
			"dec": rc.class(resp.StatusCode), "status": resp.StatusCode, "spy": c13TakeSpy(spy), "up": nil,
			"body": c13BodyLen != 0,
		}

		svc.up.mu.Lock()
		if svc.up.hits > 0 {
			// the request reached the upstream application, whose answer (200) was relayed
			if resp.StatusCode == http.StatusOK {
				out["dec"] = "ok"
			}

			out["up"] = map[string]any{
				"headers": c13NS(svc.up.headers), "cookies": c13UpCookies(svc.up.cookies),
				"payload": c13Val(svc.up.payload),
			}
		}

		out["hits"] = svc.up.hits
		svc.up.mu.Unlock()

		res["proxy"] = out
	}

	svc.prxSwitch.set(nil)

	return res, nil
}
