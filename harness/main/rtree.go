package main

import (
	"fmt"
	"reflect"
	"slices"
	"sort"

	"github.com/dadrus/heimdall/internal/x/radixtree"
)

// family rtree: the case format of family trie against the real radixtree.Tree, plus {"op":"dump"} returning the
// canonical structural dump of the current tree (unexported fields through radixtree.VerifRTreeDump, see
// rtree_dump.go; without that optional file a dump answers "nodump").
func init() { families["rtree"] = runRTree }

// rtreeDump is set by rtree_dump.go, the only file of this family that needs white-box access to the tree
var rtreeDump func(tree *radixtree.Tree[*trieVal]) any //nolint:gochecknoglobals

func runRTree(c map[string]any) (any, error) {
	tree := radixtree.New[*trieVal](radixtree.WithValuesConstraints(func(old []*trieVal, nv *trieVal) bool {
		return len(old) == 0 || old[0].src == nv.src
	}))

	out := []any{}

	for _, o := range getArr(c, "ops") {
		op := obj(o)
		switch getStr(op, "op") {
		case "batch":
			var before any
			if rtreeDump != nil {
				before = rtreeDump(tree)
			}

			tmp := tree.Clone()
			res := "ok"

			for i, it := range getArr(op, "items") {
				item := obj(it)

				var err error

				if getStr(item, "k") == "add" {
					v := &trieVal{id: getInt(item, "id"), src: getInt(item, "src"), pp: getStrs(item, "pp")}
					err = tmp.Add(getStr(item, "p"), v, radixtree.WithBacktracking[*trieVal](getBool(item, "bt")))
				} else {
					ids := getInts(item, "ids")
					err = tmp.Delete(getStr(item, "p"), radixtree.ValueMatcherFunc[*trieVal](func(v *trieVal) bool {
						return slices.Contains(ids, v.id)
					}))
				}

				if err != nil {
					res = fmt.Sprintf("err:%s@%d", trieErrKind(err), i)

					break
				}
			}

			// whatever happened to the clone, the tree it was taken from is what it was (Clone is a deep copy)
			if rtreeDump != nil && !reflect.DeepEqual(before, rtreeDump(tree)) {
				res += "!the-cloned-tree-changed"
			}

			if res == "ok" {
				tree = tmp
			}

			out = append(out, res)
		case "dump":
			if rtreeDump == nil {
				out = append(out, "nodump")
			} else {
				out = append(out, rtreeDump(tree))
			}
		default:
			acc := getInts(op, "acc")
			entry, err := tree.Find(getStr(op, "path"),
				radixtree.LookupMatcherFunc[*trieVal](func(v *trieVal, keys, values []string) bool {
					if !slices.Contains(acc, v.id) {
						return false
					}

					if len(v.pp) != 2 {
						return true
					}

					for i, k := range keys {
						if i < len(values) && k == v.pp[0] && values[i] == v.pp[1] {
							return true
						}
					}

					return false
				}))
			if err != nil {
				out = append(out, nil)

				continue
			}

			params := [][]string{}
			for k, v := range entry.Parameters {
				params = append(params, []string{k, v})
			}

			sort.Slice(params, func(i, j int) bool { return params[i][0] < params[j][0] })
			out = append(out, map[string]any{"id": entry.Value.id, "params": params})
		}
	}

	return out, nil
}
