package main

// Family "loaders", operations "watch", "provider" and "serve" (property C19): the real goroutines.
//
//   watch/script    the real fsnotify watcher of internal/watcher with a listener that does what the case says
//                   (return, log an error, panic) each time the watched file is rewritten
//   watch/material  the real watcher with the real JWT signer / TLS key store registered by their constructors;
//                   the key store file is rewritten with the contents of the case
//   provider        the real file_system rule provider (watch: true) with a rule set processor that does what the
//                   case says; a rule set file is rewritten once per event
//   serve           the real decision service (HTTP) / Envoy ext_authz service (gRPC) on a loopback port chosen
//                   by the kernel, with a rule executor that does what the request path says
//
// Nothing here recovers on behalf of heimdall: a panic on one of its goroutines ends this process, and the check
// reports the crash.  Waiting is done by polling for the expected effect with a long time limit (12 s per step, where milliseconds are usual); a run that hits
// the limit is reported as such ("timeout": the notification was not handled), never as a crash.

import (
	"bytes"
	"context"
	"encoding/json"
	"errors"
	"fmt"
	"io"
	"net"
	"net/http"
	"os"
	"path/filepath"
	"strconv"
	"strings"
	"sync"
	"time"

	envoy_auth "github.com/envoyproxy/go-control-plane/envoy/service/auth/v3"
	"github.com/rs/zerolog"
	"google.golang.org/grpc"
	"google.golang.org/grpc/credentials/insecure"

	"github.com/dadrus/heimdall/internal/cache/noop"
	"github.com/dadrus/heimdall/internal/handler/decision"
	"github.com/dadrus/heimdall/internal/handler/envoyextauth/grpcv3"
	"github.com/dadrus/heimdall/internal/heimdall"
	"github.com/dadrus/heimdall/internal/rules/config"
	"github.com/dadrus/heimdall/internal/rules/mechanisms/finalizers"
	"github.com/dadrus/heimdall/internal/rules/provider/filesystem"
	"github.com/dadrus/heimdall/internal/rules/rule"
	"github.com/dadrus/heimdall/internal/watcher"
	"github.com/dadrus/heimdall/internal/x/errorchain"
	"github.com/dadrus/heimdall/internal/x/tlsx"
)

const (
	c19WaitLimit = 12 * time.Second
	c19Poll      = 2 * time.Millisecond
	c19Settle    = 20 * time.Millisecond
)

// c19Log collects what heimdall logs (thread safe)
type c19Log struct {
	mu  sync.Mutex
	buf bytes.Buffer
	n   int
}

func (l *c19Log) Write(p []byte) (int, error) {
	l.mu.Lock()
	defer l.mu.Unlock()

	l.n += bytes.Count(p, []byte("\n"))

	return l.buf.Write(p)
}

func (l *c19Log) lines() int {
	l.mu.Lock()
	defer l.mu.Unlock()

	return l.n
}

// c19Seen remembers which events of a script have been handled (each once, in the order of first handling)
type c19Seen struct {
	mu    sync.Mutex
	order []int
	set   map[int]bool
}

func (s *c19Seen) mark(n int) {
	s.mu.Lock()
	defer s.mu.Unlock()

	if s.set == nil {
		s.set = map[int]bool{}
	}

	if !s.set[n] {
		s.set[n] = true
		s.order = append(s.order, n)
	}
}

func (s *c19Seen) has(n int) bool {
	s.mu.Lock()
	defer s.mu.Unlock()

	return s.set[n]
}

func (s *c19Seen) list(below int) []int {
	s.mu.Lock()
	defer s.mu.Unlock()

	res := []int{}

	for _, n := range s.order {
		if n < below {
			res = append(res, n)
		}
	}

	return res
}

// c19Listen: a loopback port chosen by the kernel. On a machine where many checks open many short connections the
// ephemeral ports can run out for a moment (TIME-WAIT); that is no property of heimdall, so the call is repeated.
func c19Listen() (net.Listener, error) {
	var (
		ln  net.Listener
		err error
	)

	for attempt := 0; attempt < 150; attempt++ {
		if ln, err = net.Listen("tcp", "127.0.0.1:0"); err == nil {
			return ln, nil
		}

		time.Sleep(200 * time.Millisecond)
	}

	return nil, err
}

func c19WaitFor(cond func() bool) bool {
	deadline := time.Now().Add(c19WaitLimit)
	for !cond() {
		if time.Now().After(deadline) {
			return false
		}

		time.Sleep(c19Poll)
	}

	return true
}

// c19Behave does what a scripted event says, after having noted that the event was seen
func c19Behave(seen *c19Seen, marker string) error {
	idx, behaviour, ok := strings.Cut(marker, ":")
	if !ok {
		return nil
	}

	n, err := strconv.Atoi(idx)
	if err != nil {
		return nil
	}

	seen.mark(n)

	switch behaviour {
	case "panic":
		panic(fmt.Sprintf("scripted panic of event %d", n))
	case "error":
		return errorchain.NewWithMessagef(heimdall.ErrInternal, "scripted error of event %d", n)
	}

	return nil
}

// ---------------------------------------------------------------------------------------------------------
// watch

type c19ScriptListener struct {
	path string
	seen *c19Seen
}

func (l *c19ScriptListener) OnChanged(logger zerolog.Logger) {
	raw, err := os.ReadFile(l.path)
	if err != nil {
		return
	}

	if err = c19Behave(l.seen, strings.TrimSpace(string(raw))); err != nil {
		logger.Warn().Err(err).Msg("scripted listener failed")
	}
}

func c19Watch(c map[string]any) (any, error) {
	if getStr(c, "mode") == "material" {
		return c19WatchMaterial(c)
	}

	dir, err := c19TempDir()
	if err != nil {
		return nil, err
	}

	defer os.RemoveAll(dir)

	path := filepath.Join(dir, "watched")
	if err = os.WriteFile(path, nil, 0o600); err != nil {
		return nil, err
	}

	w, err := watcher.VerifC19NewWatcher(zerolog.New(&c19Log{}))
	if err != nil {
		return nil, err
	}

	w.Start()

	defer w.Stop() //nolint:errcheck

	seen := &c19Seen{}
	if err = w.Watcher().Add(path, &c19ScriptListener{path: path, seen: seen}); err != nil {
		return nil, err
	}

	events := getStrs(c, "events")
	// one more event of the harness' own at the end: it is only handled if the process survived the others
	script := append(append([]string{}, events...), "ok")
	res := map[string]any{"alive": true}

	for n, behaviour := range script {
		if err = os.WriteFile(path, []byte(fmt.Sprintf("%d:%s\n", n, behaviour)), 0o600); err != nil {
			return nil, err
		}

		if !c19WaitFor(func() bool { return seen.has(n) }) {
			res["timeout"] = true

			break
		}
	}

	time.Sleep(c19Settle)

	res["seen"] = seen.list(len(events))

	return res, nil
}

type c19Watched interface{ state() any }

func c19WatchMaterial(c map[string]any) (any, error) {
	dir, err := c19TempDir()
	if err != nil {
		return nil, err
	}

	defer os.RemoveAll(dir)

	path := filepath.Join(dir, "store.pem")
	contents := getStrs(c, "contents")
	expect := getArr(c, "expect_states")

	if len(contents) == 0 {
		return nil, errors.New("loaders: watch without contents")
	}

	if err = os.WriteFile(path, []byte(contents[0]), 0o600); err != nil {
		return nil, err
	}

	log := &c19Log{}

	w, err := watcher.VerifC19NewWatcher(zerolog.New(log))
	if err != nil {
		return nil, err
	}

	w.Start()

	defer w.Stop() //nolint:errcheck

	var comp c19Watched

	switch getStr(c, "consumer") {
	case "jwt":
		s, err := finalizers.VerifC19NewSigner(path, getStr(c, "password"), getStr(c, "key_id"), w.Watcher())
		if err != nil {
			return map[string]any{"alive": true, "start": "error"}, nil
		}

		comp = c19JWT{s}
	case "tls":
		ks, err := tlsx.VerifC19WatchedKeyStore(path, getStr(c, "password"), getStr(c, "key_id"), w.Watcher())
		if err != nil {
			return map[string]any{"alive": true, "start": "error"}, nil
		}

		comp = c19TLS{ks}
	default:
		return nil, errors.New("loaders: watch: unknown consumer")
	}

	states := []any{comp.state()}
	res := map[string]any{"alive": true}

	for i, content := range contents[1:] {
		before := log.lines()

		if err = os.WriteFile(path, []byte(content), 0o600); err != nil {
			return nil, err
		}

		var want string
		if i+1 < len(expect) {
			want = c19Canon(expect[i+1])
		}

		// the listener has run at least once for this content (it logs the result of every run), and, if the
		// model expects the content to be taken over, it has been
		ok := c19WaitFor(func() bool {
			return log.lines() > before && (want == "" || c19Canon(comp.state()) == want)
		})
		if !ok {
			res["timeout"] = true
		}

		time.Sleep(c19Settle)

		states = append(states, comp.state())
	}

	res["states"] = states

	return res, nil
}

// c19Canon: encoding/json writes map keys in sorted order
func c19Canon(v any) string {
	raw, _ := json.Marshal(v)

	return string(raw)
}

// ---------------------------------------------------------------------------------------------------------
// provider

type c19ScriptProcessor struct{ seen *c19Seen }

func (p *c19ScriptProcessor) OnCreated(rs *config.RuleSet) error { return c19Behave(p.seen, rs.Name) }
func (p *c19ScriptProcessor) OnUpdated(rs *config.RuleSet) error { return c19Behave(p.seen, rs.Name) }
func (p *c19ScriptProcessor) OnDeleted(_ *config.RuleSet) error  { return nil }

func c19Provider(c map[string]any) (any, error) {
	c19EnvOnce.Do(c19SetupRulesEnv)

	if c19Env.err != nil {
		return nil, errors.New("loaders: environment: " + c19Env.err.Error())
	}

	dir, err := c19TempDir()
	if err != nil {
		return nil, err
	}

	defer os.RemoveAll(dir)

	seen := &c19Seen{}
	conf := *c19Env.conf
	conf.Providers.FileSystem = map[string]any{"src": dir, "watch": true}

	prov, err := filesystem.NewProvider(&conf, &c19ScriptProcessor{seen: seen}, zerolog.New(&c19Log{}))
	if err != nil {
		return nil, err
	}

	if err = prov.Start(context.Background()); err != nil {
		return nil, err
	}

	defer prov.Stop(context.Background()) //nolint:errcheck

	events := getStrs(c, "events")
	script := append(append([]string{}, events...), "ok")
	path := filepath.Join(dir, "rules.yaml")
	res := map[string]any{"alive": true}

	for n, behaviour := range script {
		text := fmt.Sprintf("version: \"1alpha4\"\nname: \"%d:%s\"\nrules:\n- id: r\n  match:\n    routes:\n"+
			"    - path: /r\n  execute:\n  - authenticator: anon\n", n, behaviour)
		if err = os.WriteFile(path, []byte(text), 0o600); err != nil {
			return nil, err
		}

		if !c19WaitFor(func() bool { return seen.has(n) }) {
			res["timeout"] = true

			break
		}
	}

	time.Sleep(c19Settle)

	res["seen"] = seen.list(len(events))

	return res, nil
}

// ---------------------------------------------------------------------------------------------------------
// serve

type c19ScriptExecutor struct{}

func (c19ScriptExecutor) Execute(ctx heimdall.Context) (rule.Backend, error) {
	switch path := ctx.Request().URL.Path; {
	case strings.HasPrefix(path, "/panic"):
		panic(errors.New("scripted panic of the pipeline"))
	case strings.HasPrefix(path, "/error"):
		return nil, errorchain.NewWithMessage(heimdall.ErrAuthentication, "scripted error of the pipeline")
	}

	return nil, nil
}

func c19Serve(c map[string]any) (any, error) {
	c19EnvOnce.Do(c19SetupRulesEnv)

	if c19Env.err != nil {
		return nil, errors.New("loaders: environment: " + c19Env.err.Error())
	}

	ln, err := c19Listen()
	if err != nil {
		return nil, err
	}

	logger := zerolog.New(io.Discard)
	requests := append(getStrs(c, "requests"), "ok") // the harness' own last request: still served?
	replies := []string{}
	alive := true

	if getStr(c, "server") == "grpc" {
		srv := grpcv3.VerifC19NewService(c19Env.conf, &noop.Cache{}, logger, c19ScriptExecutor{})

		go srv.Serve(ln) //nolint:errcheck

		defer srv.Stop()

		conn, err := grpc.NewClient(ln.Addr().String(), grpc.WithTransportCredentials(insecure.NewCredentials()))
		if err != nil {
			return nil, err
		}

		defer conn.Close()

		for _, r := range requests {
			ctx, cancel := context.WithTimeout(context.Background(), c19WaitLimit)
			res, err := envoy_auth.NewAuthorizationClient(conn).Check(ctx, &envoy_auth.CheckRequest{
				Attributes: &envoy_auth.AttributeContext{Request: &envoy_auth.AttributeContext_Request{
					Http: &envoy_auth.AttributeContext_HttpRequest{
						Method: "GET", Path: "/" + r, Host: "svc.local", Scheme: "http",
					},
				}},
			})

			cancel()

			switch {
			case err != nil && strings.Contains(err.Error(), "Unavailable"):
				replies = append(replies, "dropped")
			case err != nil:
				replies = append(replies, "error")
			case res.GetStatus().GetCode() == 0:
				replies = append(replies, "status:200")
			default:
				replies = append(replies, "error")
			}
		}
	} else {
		srv := decision.VerifC19NewService(c19Env.conf, &noop.Cache{}, logger, c19ScriptExecutor{})

		go srv.Serve(ln) //nolint:errcheck

		defer srv.Close()

		client := &http.Client{
			Timeout:   c19WaitLimit,
			Transport: &http.Transport{DisableKeepAlives: true, Proxy: nil},
		}

		for _, r := range requests {
			res, err := client.Get("http://" + ln.Addr().String() + "/" + r)
			if err != nil {
				replies = append(replies, "dropped")

				continue
			}

			io.Copy(io.Discard, res.Body) //nolint:errcheck
			res.Body.Close()

			if res.StatusCode >= http.StatusBadRequest {
				replies = append(replies, "error")
			} else {
				replies = append(replies, fmt.Sprintf("status:%d", res.StatusCode))
			}
		}
	}

	// the last reply belongs to the harness' own request
	if last := replies[len(replies)-1]; last != "status:200" {
		alive = false
	}

	return map[string]any{"alive": alive, "replies": replies[:len(replies)-1]}, nil
}
