// Package zzsync provides drop-in replacements for sync.Mutex / sync.RWMutex that add scheduling jitter around
// every lock operation. The /verif concurrency checks compile an automatically rewritten copy of the file under
// test against these types (build overlay), so that rare interleavings become likely. With jitter disabled
// (the default) they behave exactly like the standard types.
package zzsync

import (
	"runtime"
	"sync"
	"sync/atomic"
	"time"
)

var (
	enabled atomic.Bool
	state   atomic.Uint64
)

// Enable switches jitter on or off and seeds it.
func Enable(on bool, seed uint64) {
	state.Store(seed*2654435761 + 1)
	enabled.Store(on)
}

func jitter() {
	if !enabled.Load() {
		return
	}

	x := state.Add(0x9E3779B97F4A7C15)
	x ^= x >> 31
	x *= 0xBF58476D1CE4E5B9
	x ^= x >> 29

	switch x % 8 {
	case 0, 1, 2:
		runtime.Gosched()
	case 3:
		time.Sleep(time.Duration(x>>8%40) * time.Microsecond)
	case 4:
		time.Sleep(time.Duration(x>>8%300) * time.Microsecond)
	}
}

// Yield is a scheduling point inserted (by build overlay) into code that runs between lock operations.
func Yield() { jitter() }

type Mutex struct{ mu sync.Mutex }

func (m *Mutex) Lock()   { jitter(); m.mu.Lock(); jitter() }
func (m *Mutex) Unlock() { jitter(); m.mu.Unlock(); jitter() }

type RWMutex struct{ mu sync.RWMutex }

func (m *RWMutex) Lock()    { jitter(); m.mu.Lock(); jitter() }
func (m *RWMutex) Unlock()  { jitter(); m.mu.Unlock(); jitter() }
func (m *RWMutex) RLock()   { jitter(); m.mu.RLock(); jitter() }
func (m *RWMutex) RUnlock() { jitter(); m.mu.RUnlock(); jitter() }
