package management

// White-box export for the /verif check of property C16 (injected by go build overlay, never committed).

import (
	"net/http"

	"github.com/rs/zerolog"

	"github.com/dadrus/heimdall/internal/config"
	"github.com/dadrus/heimdall/internal/keyholder"
)

// VerifC16NewService assembles the real management service (middleware chain, health and JWKS handlers).
func VerifC16NewService(conf *config.Configuration, log zerolog.Logger, khr keyholder.Registry) *http.Server {
	return newService(conf, log, khr)
}
