package finalizers

import (
	"github.com/go-jose/go-jose/v4"

	"github.com/dadrus/heimdall/internal/watcher"
)

// VerifC11Signer is what the C11 check needs of a signer: its hash and (keyholder.KeyHolder) its keys.
type VerifC11Signer interface {
	Hash() []byte
	Keys() []jose.JSONWebKey
}

// VerifC11NewSigner creates a signer with its constructor (C11, white box only in that the constructor is unexported).
func VerifC11NewSigner(path, name string, fw watcher.Watcher) (VerifC11Signer, error) {
	return newJWTSigner(&SignerConfig{Name: name, KeyStore: KeyStore{Path: path}}, fw)
}
