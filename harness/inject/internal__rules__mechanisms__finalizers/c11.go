package finalizers

import (
	"crypto"

	"github.com/go-jose/go-jose/v4"
)

// VerifC11SignerHash is jwtSigner.Hash for a signer holding the given key id, algorithm and issuer (C11, white box).
func VerifC11SignerHash(kid, alg, iss string) []byte {
	s := &jwtSigner{iss: iss, jwk: jose.JSONWebKey{KeyID: kid, Algorithm: alg}}

	return s.Hash()
}

// VerifC11FinalizerSigner tells what the signer of a jwt finalizer feeds into its hash: key id, algorithm, issuer
// and the thumbprint of the key.
func VerifC11FinalizerSigner(f Finalizer) (string, string, string, []byte, bool) {
	jf, ok := f.(*jwtFinalizer)
	if !ok {
		return "", "", "", nil, false
	}

	jf.signer.mut.RLock()
	defer jf.signer.mut.RUnlock()

	thumbprint, _ := jf.signer.jwk.Thumbprint(crypto.SHA256)

	return jf.signer.jwk.KeyID, jf.signer.jwk.Algorithm, jf.signer.iss, thumbprint, true
}
