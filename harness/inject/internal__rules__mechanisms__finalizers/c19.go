package finalizers

// White-box exports for the /verif check of property C19 (injected by go build overlay, never committed).

import (
	"github.com/dadrus/heimdall/internal/watcher"
)

// VerifC19Signer wraps the real, unexported jwtSigner.
type VerifC19Signer struct{ s *jwtSigner }

// VerifC19BareSigner is a jwtSigner that has not loaded anything yet (as newJWTSigner builds it before load()).
func VerifC19BareSigner(path, password, keyID string) *VerifC19Signer {
	return &VerifC19Signer{s: &jwtSigner{path: path, password: password, keyID: keyID, iss: "heimdall"}}
}

// VerifC19NewSigner is the real constructor: load() and registration with the watcher.
func VerifC19NewSigner(path, password, keyID string, fw watcher.Watcher) (*VerifC19Signer, error) {
	s, err := newJWTSigner(&SignerConfig{KeyStore: KeyStore{Path: path, Password: password}, KeyID: keyID}, fw)
	if err != nil {
		return nil, err
	}

	return &VerifC19Signer{s: s}, nil
}

func (v *VerifC19Signer) Load() error                      { return v.s.load() }
func (v *VerifC19Signer) Listener() watcher.ChangeListener { return v.s }

// State is what the signer would use from now on: id and algorithm of the signing key, ids of the published keys.
func (v *VerifC19Signer) State() (string, string, []string) {
	v.s.mut.RLock()
	defer v.s.mut.RUnlock()

	kids := make([]string, 0, len(v.s.pubKeys))
	for _, k := range v.s.pubKeys {
		kids = append(kids, k.KeyID)
	}

	return v.s.jwk.KeyID, v.s.jwk.Algorithm, kids
}
