package cloudblob

// White-box exports for the /verif check of property C18 (injected by go build overlay, never committed).

import (
	"context"

	"github.com/rs/zerolog"

	"github.com/dadrus/heimdall/internal/config"
	"github.com/dadrus/heimdall/internal/rules/rule"
)

// VerifC18Provider wraps the real cloud_blob provider; polls are triggered by the caller instead of the scheduler.
type VerifC18Provider struct {
	p   *provider
	eps []*ruleSetEndpoint
}

// VerifC18New builds the provider through newProvider and decodes the buckets the same way newProvider does.
func VerifC18New(conf *config.Configuration, proc rule.SetProcessor, logger zerolog.Logger) (*VerifC18Provider, error) {
	p, err := newProvider(conf, proc, logger)
	if err != nil {
		return nil, err
	}

	type cfg struct {
		Buckets []*ruleSetEndpoint `mapstructure:"buckets"`
	}

	var c cfg
	if err = decodeConfig(conf.Providers.CloudBlob, &c); err != nil {
		return nil, err
	}

	return &VerifC18Provider{p: p, eps: c.Buckets}, nil
}

// Poll is one run of the scheduled job for the idx-th configured bucket.
func (v *VerifC18Provider) Poll(ctx context.Context, idx int) error {
	return v.p.watchChanges(ctx, v.eps[idx])
}

// BucketID is the identifier of the idx-th configured bucket.
func (v *VerifC18Provider) BucketID(idx int) string { return v.eps[idx].ID() }

// States returns a copy of the content hashes remembered per bucket and blob.
func (v *VerifC18Provider) States() map[string]map[string][]byte {
	res := map[string]map[string][]byte{}

	v.p.states.Range(func(key, value any) bool {
		m := map[string][]byte{}
		for k, h := range value.(BucketState) { //nolint:forcetypeassert
			m[k] = append([]byte{}, h...)
		}

		res[key.(string)] = m //nolint:forcetypeassert

		return true
	})

	return res
}

// Close releases the (never started) scheduler.
func (v *VerifC18Provider) Close() {
	v.p.cancel()
	_ = v.p.s.Shutdown()
}
