package kubernetes

// White-box exports for the /verif check of property C19 (injected by go build overlay, never committed).

import (
	"context"

	"github.com/rs/zerolog"
	"k8s.io/client-go/rest"

	"github.com/dadrus/heimdall/internal/config"
	"github.com/dadrus/heimdall/internal/rules/rule"
)

// VerifC19Provider is the real kubernetes provider with its real client-go REST client; only the address of the API
// server is the caller's.
type VerifC19Provider struct{ p *provider }

// VerifC19New builds the provider through newProvider; host is the base URL of the API server.
func VerifC19New(
	conf *config.Configuration, proc rule.SetProcessor, factory rule.Factory, host string, logger zerolog.Logger,
) (*VerifC19Provider, error) {
	p, err := newProvider(logger, conf,
		// no client-side throttling (the default of 5 requests per second only makes the cases slow)
		func() (*rest.Config, error) { return &rest.Config{Host: host, QPS: 10000, Burst: 10000}, nil }, proc, factory)
	if err != nil {
		return nil, err
	}

	return &VerifC19Provider{p: p}, nil
}

func (v *VerifC19Provider) Start(ctx context.Context) error { return v.p.Start(ctx) }
func (v *VerifC19Provider) Stop(ctx context.Context) error  { return v.p.Stop(ctx) }
