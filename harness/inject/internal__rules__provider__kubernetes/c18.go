package kubernetes

// White-box exports for the /verif check of property C18 (injected by go build overlay, never committed).

import (
	"context"

	"github.com/rs/zerolog"
	"k8s.io/client-go/rest"
	"k8s.io/client-go/tools/cache"

	"github.com/dadrus/heimdall/internal/config"
	"github.com/dadrus/heimdall/internal/rules/provider/kubernetes/api/v1alpha4"
	"github.com/dadrus/heimdall/internal/rules/rule"
)

// VerifC18Provider wraps the real kubernetes provider; only the API client is replaced by the caller's.
type VerifC18Provider struct{ p *provider }

// VerifC18New builds the provider through newProvider and swaps the REST client for cl.
func VerifC18New(
	conf *config.Configuration, proc rule.SetProcessor, factory rule.Factory, cl v1alpha4.Client, logger zerolog.Logger,
) (*VerifC18Provider, error) {
	p, err := newProvider(logger, conf,
		func() (*rest.Config, error) { return &rest.Config{Host: "http://127.0.0.1:1"}, nil }, proc, factory)
	if err != nil {
		return nil, err
	}

	p.cl = cl

	return &VerifC18Provider{p: p}, nil
}

func (v *VerifC18Provider) Start(ctx context.Context) error { return v.p.Start(ctx) }
func (v *VerifC18Provider) Stop(ctx context.Context) error  { return v.p.Stop(ctx) }
func (v *VerifC18Provider) Store() cache.Store              { return v.p.store }
