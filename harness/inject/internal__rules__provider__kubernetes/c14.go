package kubernetes

import (
	config2 "github.com/dadrus/heimdall/internal/rules/config"
	"github.com/dadrus/heimdall/internal/rules/provider/kubernetes/api/v1alpha4"
)

// VerifC14ToRuleSetConfiguration is the provider's own conversion of a RuleSet resource into the rule set handed
// to the rule set processor (exported for the C14 harness family; injected by go build overlay only).
func VerifC14ToRuleSetConfiguration(rs *v1alpha4.RuleSet) *config2.RuleSet {
	return (&provider{}).toRuleSetConfiguration(rs)
}
