package filesystem

// White-box exports for the /verif check of property C18 (injected by go build overlay, never committed).

import "github.com/fsnotify/fsnotify"

// VerifC18Event hands one file system notification to the provider, exactly as watchFiles does.
func VerifC18Event(p *Provider, evt fsnotify.Event) error { return p.ruleSetsChanged(evt) }

// VerifC18States returns a copy of the content hashes the provider remembers per file.
func VerifC18States(p *Provider) map[string][]byte {
	res := map[string][]byte{}

	p.states.Range(func(key, value any) bool {
		res[key.(string)] = append([]byte{}, value.([]byte)...) //nolint:forcetypeassert

		return true
	})

	return res
}
