package filesystem

// White-box exports for the /verif check of property C19 (injected by go build overlay, never committed).

import "github.com/fsnotify/fsnotify"

// VerifC19Changed hands one file system event to the provider the way watchFiles does, on the caller's goroutine.
func (p *Provider) VerifC19Changed(name string, op fsnotify.Op) error {
	return p.ruleSetsChanged(fsnotify.Event{Name: name, Op: op})
}
