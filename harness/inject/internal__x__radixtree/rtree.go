package radixtree

import "sort"

// VerifRTreeDump returns a canonical structural dump of the tree (white-box access for the /verif family `rtree`):
// path, kind (from the isWildcard / isCatchAll flags), priority, the index bytes in their actual order, the static
// children sorted by index byte, wildcard child, catch-all child, value ids, wildcard keys, backtracking flag.
func VerifRTreeDump[V any](t *Tree[V], id func(V) int) any {
	if t == nil {
		return nil
	}

	kind := "static"

	switch {
	case t.isWildcard && t.isCatchAll:
		kind = "wild+catch"
	case t.isWildcard:
		kind = "wild"
	case t.isCatchAll:
		kind = "catch"
	}

	order := make([]any, 0, len(t.staticIndices))
	for _, b := range t.staticIndices {
		order = append(order, int(b))
	}

	type edge struct {
		idx   int
		child *Tree[V]
	}

	edges := make([]edge, 0, len(t.staticChildren))

	for i, c := range t.staticChildren {
		idx := -1
		if i < len(t.staticIndices) {
			idx = int(t.staticIndices[i])
		}

		edges = append(edges, edge{idx: idx, child: c})
	}

	if len(t.staticIndices) != len(t.staticChildren) {
		kind += "!len"
	}

	sort.SliceStable(edges, func(i, j int) bool { return edges[i].idx < edges[j].idx })

	static := make([]any, 0, len(edges))
	for _, e := range edges {
		static = append(static, []any{e.idx, VerifRTreeDump(e.child, id)})
	}

	values := make([]any, 0, len(t.values))
	for _, v := range t.values {
		values = append(values, id(v))
	}

	keys := make([]any, 0, len(t.wildcardKeys))
	for _, k := range t.wildcardKeys {
		keys = append(keys, k)
	}

	return map[string]any{
		"path":   t.path,
		"kind":   kind,
		"prio":   t.priority,
		"order":  order,
		"static": static,
		"wild":   VerifRTreeDump(t.wildcardChild, id),
		"catch":  VerifRTreeDump(t.catchAllChild, id),
		"values": values,
		"keys":   keys,
		"bt":     t.backtrackingEnabled,
	}
}
