package authenticators

// White-box access for the C05 check (injected by a build overlay, nothing is committed to the repository):
// the two algorithm lists of the JWT authenticator as the linked code states them.

// VerifC05SupportedAlgorithms returns what jwt.ParseSigned is called with.
func VerifC05SupportedAlgorithms() []string {
	res := []string{}
	for _, a := range supportedAlgorithms() {
		res = append(res, string(a))
	}

	return res
}

// VerifC05DefaultAllowedAlgorithms returns the allowed algorithms used when none are configured.
func VerifC05DefaultAllowedAlgorithms() []string { return append([]string{}, defaultAllowedAlgorithms()...) }
