package tlsx

// White-box exports for the /verif check of property C19 (injected by go build overlay, never committed).

import (
	"github.com/dadrus/heimdall/internal/watcher"
)

// VerifC19KeyStore wraps the real, unexported TLS key store.
type VerifC19KeyStore struct{ ks *keyStore }

// VerifC19BareKeyStore is a keyStore that has not loaded anything yet (as newTLSKeyStore builds it before load()).
func VerifC19BareKeyStore(path, password, keyID string) *VerifC19KeyStore {
	return &VerifC19KeyStore{ks: &keyStore{path: path, keyID: keyID, password: password}}
}

func (v *VerifC19KeyStore) Load() error                      { return v.ks.load() }
func (v *VerifC19KeyStore) Listener() watcher.ChangeListener { return v.ks }

// State is the serial number of the leaf certificate in use and the length of its chain ("" / 0: nothing loaded).
func (v *VerifC19KeyStore) State() (string, int) {
	v.ks.mut.RLock()
	defer v.ks.mut.RUnlock()

	if v.ks.tlsCert == nil || v.ks.tlsCert.Leaf == nil {
		return "", 0
	}

	return v.ks.tlsCert.Leaf.SerialNumber.String(), len(v.ks.certChain)
}

// VerifC19WatchedKeyStore does what ToTLSConfig does with a key store: load it and register it with the watcher.
func VerifC19WatchedKeyStore(path, password, keyID string, fw watcher.Watcher) (*VerifC19KeyStore, error) {
	ks, err := newTLSKeyStore(path, keyID, password)
	if err != nil {
		return nil, err
	}

	if err = fw.Add(ks.path, ks); err != nil {
		return nil, err
	}

	return &VerifC19KeyStore{ks: ks}, nil
}
