package proxy

// White-box export for the /verif check of property C08 (injected by go build overlay, never committed).

import (
	"net/http"

	"github.com/dadrus/heimdall/internal/config"
	"github.com/dadrus/heimdall/internal/handler/requestcontext"
)

// VerifC08NewContext creates the request context of the proxy service through its own context factory. The transport
// towards the upstream is replaced by the given one (which records what is written to the upstream connection);
// everything else - Finalize, the reverse proxy, rewriteRequest - is the code of the service.
func VerifC08NewContext(rw http.ResponseWriter, req *http.Request, transport *http.Transport) requestcontext.Context {
	ctx := newContextFactory(config.ServiceConfig{}, nil).Create(rw, req)

	rc, ok := ctx.(*requestContext)
	if !ok {
		return nil // fails closed: the harness reports that the request context of the proxy is not the expected one
	}

	rc.transport = transport

	return ctx
}
