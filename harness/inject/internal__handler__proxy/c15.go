package proxy

// White-box export for the /verif check of property C15 (injected by go build overlay, never committed).

import (
	"crypto/tls"
	"net/http"

	"github.com/rs/zerolog"

	"github.com/dadrus/heimdall/internal/cache"
	"github.com/dadrus/heimdall/internal/config"
	"github.com/dadrus/heimdall/internal/rules/rule"
)

// VerifC15NewService assembles the real proxy service (middleware chain incl. trusted-proxy handling, handler,
// request context factory, reverse proxy). upstreamTLS is the client-side TLS configuration used towards upstreams
// (the package's own test-only variable, so that a test upstream with a self-signed certificate can be reached).
func VerifC15NewService(
	conf *config.Configuration, cch cache.Cache, log zerolog.Logger, exec rule.Executor, upstreamTLS *tls.Config,
) *http.Server {
	old := tlsClientConfig
	tlsClientConfig = upstreamTLS

	defer func() { tlsClientConfig = old }()

	return newService(conf, cch, log, exec)
}
