package proxy

// White-box export for the /verif check of property C19 (injected by go build overlay, never committed).

import (
	"net/http"

	"github.com/rs/zerolog"

	"github.com/dadrus/heimdall/internal/cache"
	"github.com/dadrus/heimdall/internal/config"
	"github.com/dadrus/heimdall/internal/rules/rule"
)

// VerifC19NewService assembles the real proxy service (middleware chain, handler, request context factory).
func VerifC19NewService(conf *config.Configuration, cch cache.Cache, log zerolog.Logger, exec rule.Executor) *http.Server {
	return newService(conf, cch, log, exec)
}
