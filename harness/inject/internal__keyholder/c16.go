package keyholder

// White-box export for the /verif check of property C16 (injected by go build overlay, never committed).

// VerifC16NewRegistry creates the real key holder registry.
func VerifC16NewRegistry() Registry { return newRegistry() }
