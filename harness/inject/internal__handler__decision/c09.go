package decision

import (
	"net/http"

	"github.com/rs/zerolog"

	"github.com/dadrus/heimdall/internal/cache"
	"github.com/dadrus/heimdall/internal/config"
	"github.com/dadrus/heimdall/internal/rules/rule"
)

// VerifC09NewService exposes the unexported constructor of the decision service (complete middleware chain +
// request handler) to the /verif harness. Injected by a build overlay, never committed to /repo.
func VerifC09NewService(
	conf *config.Configuration, cch cache.Cache, log zerolog.Logger, exec rule.Executor,
) *http.Server {
	return newService(conf, cch, log, exec)
}
