package decision

import (
	"net/http"

	"github.com/rs/zerolog"

	"github.com/dadrus/heimdall/internal/cache"
	"github.com/dadrus/heimdall/internal/config"
	"github.com/dadrus/heimdall/internal/handler/requestcontext"
	"github.com/dadrus/heimdall/internal/rules/rule"
)

// VerifC12NewService exposes the decision service constructor to the /verif harness (property C12).
func VerifC12NewService(conf *config.Configuration, cch cache.Cache, log zerolog.Logger, exec rule.Executor) *http.Server {
	return newService(conf, cch, log, exec)
}

// VerifC12NewContext creates the request context of the decision service.
func VerifC12NewContext(rw http.ResponseWriter, req *http.Request) interface {
	AddHeaderForUpstream(name, value string)
	SetPipelineError(err error)
	Finalize(backend rule.Backend) error
} {
	return newContextFactory(http.StatusOK).Create(rw, req)
}

// VerifC12ContextFactory is the request context factory of the decision service, as handed to service.NewHandler.
func VerifC12ContextFactory() requestcontext.ContextFactory {
	return newContextFactory(http.StatusOK)
}
