package httpendpoint

// White-box exports for the /verif check of property C19 (injected by go build overlay, never committed).

import (
	"context"

	"github.com/rs/zerolog"

	"github.com/dadrus/heimdall/internal/cache"
	"github.com/dadrus/heimdall/internal/config"
	"github.com/dadrus/heimdall/internal/rules/rule"
)

// VerifC19Provider is the real http_endpoint provider; the job the scheduler runs per endpoint every watch_interval
// (watchChanges) is run by the caller instead.
type VerifC19Provider struct {
	p   *provider
	eps []*ruleSetEndpoint
}

// VerifC19New builds the provider through newProvider and decodes the endpoints the way newProvider does.
func VerifC19New(
	conf *config.Configuration, cch cache.Cache, proc rule.SetProcessor, logger zerolog.Logger,
) (*VerifC19Provider, error) {
	p, err := newProvider(conf, cch, proc, logger)
	if err != nil {
		return nil, err
	}

	type cfg struct {
		Endpoints []*ruleSetEndpoint `mapstructure:"endpoints"`
	}

	var c cfg
	if err = decodeConfig(conf.Providers.HTTPEndpoint, &c); err != nil {
		return nil, err
	}

	for _, ep := range c.Endpoints {
		ep.init()
	}

	return &VerifC19Provider{p: p, eps: c.Endpoints}, nil
}

// Poll is one run of the scheduled job for the idx-th configured endpoint.
func (v *VerifC19Provider) Poll(ctx context.Context, idx int) error {
	return v.p.watchChanges(ctx, v.eps[idx])
}

// Close releases the (never started) scheduler.
func (v *VerifC19Provider) Close() {
	v.p.cancel()
	_ = v.p.s.Shutdown()
}
