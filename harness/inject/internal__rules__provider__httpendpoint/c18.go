package httpendpoint

// White-box exports for the /verif check of property C18 (injected by go build overlay, never committed).

import (
	"context"

	"github.com/rs/zerolog"

	"github.com/dadrus/heimdall/internal/cache"
	"github.com/dadrus/heimdall/internal/config"
	"github.com/dadrus/heimdall/internal/rules/rule"
)

// VerifC18Provider wraps the real http_endpoint provider; polls are triggered by the caller instead of the scheduler.
type VerifC18Provider struct {
	p    *provider
	eps  map[string]*ruleSetEndpoint
	list []*ruleSetEndpoint
}

// VerifC18New builds the provider through newProvider from the given provider configuration and decodes the
// endpoints the same way newProvider does.
func VerifC18New(
	conf *config.Configuration, cch cache.Cache, proc rule.SetProcessor, logger zerolog.Logger,
) (*VerifC18Provider, error) {
	p, err := newProvider(conf, cch, proc, logger)
	if err != nil {
		return nil, err
	}

	type cfg struct {
		Endpoints []*ruleSetEndpoint `mapstructure:"endpoints"`
	}

	var c cfg
	if err = decodeConfig(conf.Providers.HTTPEndpoint, &c); err != nil {
		return nil, err
	}

	eps := map[string]*ruleSetEndpoint{}

	for _, ep := range c.Endpoints {
		ep.init()
		eps[ep.ID()] = ep
	}

	return &VerifC18Provider{p: p, eps: eps, list: c.Endpoints}, nil
}

// Poll is one run of the scheduled job for the endpoint with the given url.
func (v *VerifC18Provider) Poll(ctx context.Context, url string) error {
	return v.p.watchChanges(ctx, v.eps[url])
}

// PollIdx is one run of the scheduled job for the idx-th configured endpoint.
func (v *VerifC18Provider) PollIdx(ctx context.Context, idx int) error {
	return v.p.watchChanges(ctx, v.list[idx])
}

// EndpointID is the identifier of the idx-th configured endpoint.
func (v *VerifC18Provider) EndpointID(idx int) string { return v.list[idx].ID() }

// States returns a copy of the content hashes remembered per endpoint.
func (v *VerifC18Provider) States() map[string][]byte {
	res := map[string][]byte{}

	v.p.states.Range(func(key, value any) bool {
		res[key.(string)] = append([]byte{}, value.([]byte)...) //nolint:forcetypeassert

		return true
	})

	return res
}

// Close releases the (never started) scheduler.
func (v *VerifC18Provider) Close() {
	v.p.cancel()
	_ = v.p.s.Shutdown()
}
