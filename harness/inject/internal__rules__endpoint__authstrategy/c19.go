package authstrategy

// White-box exports for the /verif check of property C19 (injected by go build overlay, never committed).

// VerifC19Init runs the unexported init() (what OnChanged and the decode hook call).
func (s *HTTPMessageSignatures) VerifC19Init() error { return s.init() }

// VerifC19State is what the strategy would use from now on: whether a signer is present, ids of the published keys.
func (s *HTTPMessageSignatures) VerifC19State() (bool, []string) {
	s.mut.RLock()
	defer s.mut.RUnlock()

	kids := make([]string, 0, len(s.pubKeys))
	for _, k := range s.pubKeys {
		kids = append(kids, k.KeyID)
	}

	return s.signer != nil, kids
}
