package clientcredentials

// VerifC11CacheKey is Config.calculateCacheKey (C11, white box).
func VerifC11CacheKey(c *Config) string { return c.calculateCacheKey() }
