package grpcv3

// White-box export for the /verif check of property C19 (injected by go build overlay, never committed).

import (
	"github.com/rs/zerolog"
	"google.golang.org/grpc"

	"github.com/dadrus/heimdall/internal/cache"
	"github.com/dadrus/heimdall/internal/config"
	"github.com/dadrus/heimdall/internal/rules/rule"
)

// VerifC19NewService assembles the real Envoy ext_authz gRPC service (interceptor chain and handler).
func VerifC19NewService(conf *config.Configuration, cch cache.Cache, log zerolog.Logger, exec rule.Executor) *grpc.Server {
	return newService(conf, cch, log, exec)
}
