package grpcv3

import (
	"github.com/rs/zerolog"
	"google.golang.org/grpc"

	"github.com/dadrus/heimdall/internal/cache"
	"github.com/dadrus/heimdall/internal/config"
	"github.com/dadrus/heimdall/internal/rules/rule"
)

// VerifC12NewService exposes the Envoy ext_authz gRPC service constructor to the /verif harness (property C12).
func VerifC12NewService(conf *config.Configuration, cch cache.Cache, log zerolog.Logger, exec rule.Executor) *grpc.Server {
	return newService(conf, cch, log, exec)
}

// VerifC12PipelineError shows the pipeline error kept by the request context.
func (r *RequestContext) VerifC12PipelineError() error { return r.err }

// VerifC12NewHandler creates the handler of the Check RPC around the given rule executor.
func VerifC12NewHandler(exec rule.Executor) *Handler { return &Handler{e: exec} }
