package rules

// White-box exports for the /verif check of property C01 (injected by go build overlay, never committed).

import "github.com/dadrus/heimdall/internal/rules/rule"

// VerifC01NewRepository is the unexported constructor of the real rule repository.
func VerifC01NewRepository(f rule.Factory) rule.Repository { return newRepository(f) }

// VerifC01NewRuleExecutor is the unexported constructor of the real rule executor.
func VerifC01NewRuleExecutor(r rule.Repository) rule.Executor { return newRuleExecutor(r) }
