package rules

import "github.com/dadrus/heimdall/internal/rules/rule"

// VerifNewRepository exposes the unexported repository constructor to the /verif harness (build overlay only).
func VerifNewRepository(f rule.Factory) rule.Repository { return newRepository(f) }
