package rules

import "github.com/dadrus/heimdall/internal/rules/rule"

// VerifC14NewRepository exposes the unexported repository constructor to the C14 harness family
// (the repository and rule set processor are assembled exactly as rules.Module does it).
func VerifC14NewRepository(f rule.Factory) rule.Repository { return newRepository(f) }
