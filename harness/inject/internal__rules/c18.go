package rules

// White-box exports for the /verif check of property C18 (injected by go build overlay, never committed).

import "github.com/dadrus/heimdall/internal/rules/rule"

// VerifC18Known lists (rule set source, rule id) of every rule the repository currently holds, in its own order.
func VerifC18Known(r rule.Repository) [][2]string {
	repo := r.(*repository) //nolint:forcetypeassert

	repo.knownRulesMutex.Lock()
	defer repo.knownRulesMutex.Unlock()

	res := make([][2]string, 0, len(repo.knownRules))
	for _, rul := range repo.knownRules {
		res = append(res, [2]string{rul.SrcID(), rul.ID()})
	}

	return res
}
