package rules

// White-box exports for the /verif check of property C15 (injected by go build overlay, never committed).

import "github.com/dadrus/heimdall/internal/rules/rule"

// VerifC15NewRepository is the unexported constructor of the real rule repository.
func VerifC15NewRepository(f rule.Factory) rule.Repository { return newRepository(f) }

// VerifC15NewRuleExecutor is the unexported constructor of the real rule executor.
func VerifC15NewRuleExecutor(r rule.Repository) rule.Executor { return newRuleExecutor(r) }
