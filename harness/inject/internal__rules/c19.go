package rules

import "github.com/dadrus/heimdall/internal/rules/rule"

// VerifC19NewRepository exposes the unexported repository constructor to the C19 harness family (build overlay only).
func VerifC19NewRepository(f rule.Factory) rule.Repository { return newRepository(f) }

// VerifC19NewRuleExecutor exposes the unexported rule executor constructor (the executor the services call).
func VerifC19NewRuleExecutor(r rule.Repository) rule.Executor { return newRuleExecutor(r) }
