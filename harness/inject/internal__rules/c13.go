package rules

// White-box exports for the /verif check of property C13 (injected by go build overlay, never committed).

import "github.com/dadrus/heimdall/internal/rules/rule"

// VerifC13NewRepository is the unexported constructor of the real rule repository.
func VerifC13NewRepository(f rule.Factory) rule.Repository { return newRepository(f) }

// VerifC13NewRuleExecutor is the unexported constructor of the real rule executor.
func VerifC13NewRuleExecutor(r rule.Repository) rule.Executor { return newRuleExecutor(r) }
