package redis

// White-box exports for the /verif check of property C19 (injected by go build overlay, never committed).

import (
	"errors"
	"reflect"

	"github.com/redis/rueidis"

	"github.com/dadrus/heimdall/internal/watcher"
)

// VerifC19Creds is the hot-reloaded credentials file of the redis cache, built and used the way heimdall does it:
// the configuration decode hook creates the `fileCredentials` (which loads the file once; a failure there is a
// start-up failure), `baseConfig.clientOptions` registers it with the secrets watcher and hands rueidis the
// `AuthCredentialsFn`, which rueidis calls whenever it (re-)connects.
type VerifC19Creds struct {
	c    credentials
	auth func(rueidis.AuthCredentialsContext) (rueidis.AuthCredentials, error)
}

// VerifC19NewCreds: `credentials: {path: <path>}` of a redis cache configuration, watched by cw.
func VerifC19NewCreds(path string, cw watcher.Watcher) (*VerifC19Creds, error) {
	var target credentials

	res, err := decodeCredentialsHookFunc(
		reflect.TypeOf(map[string]any{}), reflect.TypeOf(&target).Elem(), map[string]any{"path": path})
	if err != nil {
		return nil, err
	}

	creds, ok := res.(credentials)
	if !ok {
		return nil, errors.New("verif: the decode hook did not create credentials")
	}

	if _, ok = creds.(watcher.ChangeListener); !ok {
		return nil, errors.New("verif: file credentials are no change listener")
	}

	opts, err := baseConfig{Credentials: creds, TLS: tlsConfig{Disabled: true}}.clientOptions("verif", cw, nil)
	if err != nil {
		return nil, err
	}

	return &VerifC19Creds{c: creds, auth: opts.AuthCredentialsFn}, nil
}

// Listener is what the watcher calls when the file changes.
func (v *VerifC19Creds) Listener() watcher.ChangeListener {
	return v.c.(watcher.ChangeListener) //nolint:forcetypeassert
}

// Get is what rueidis does when it needs the credentials for a new connection.
func (v *VerifC19Creds) Get() (string, string, error) {
	ac, err := v.auth(rueidis.AuthCredentialsContext{})

	return ac.Username, ac.Password, err
}
