package watcher

// White-box export for the /verif check of property C16 (injected by go build overlay, never committed).

import (
	"context"

	"github.com/rs/zerolog"
)

// VerifC16NewWatcher creates and starts the real fsnotify based watcher; stop closes it.
func VerifC16NewWatcher(log zerolog.Logger) (Watcher, func(), error) {
	w, err := newWatcher(log)
	if err != nil {
		return nil, nil, err
	}

	w.start(context.Background())

	return w, func() { _ = w.stop(context.Background()) }, nil
}
