package watcher

// White-box exports for the /verif check of property C19 (injected by go build overlay, never committed).

import (
	"context"

	"github.com/rs/zerolog"
)

// VerifC19Watcher is the real fsnotify based watcher (the one Module provides when secrets reload is enabled).
type VerifC19Watcher struct{ w *watcher }

func VerifC19NewWatcher(logger zerolog.Logger) (*VerifC19Watcher, error) {
	w, err := newWatcher(logger)
	if err != nil {
		return nil, err
	}

	return &VerifC19Watcher{w: w}, nil
}

func (v *VerifC19Watcher) Watcher() Watcher { return v.w }
func (v *VerifC19Watcher) Start()           { v.w.start(context.Background()) }
func (v *VerifC19Watcher) Stop() error      { return v.w.stop(context.Background()) }
